"""C01 — the box-intersection test (intersects_bounds) is geometrically exact.

Correspondence: the real arrays / scalars of all seven kinds against
Model/Intersect.v evaluated by the Coq kernel on the exported buffers
(array form, array-at-inds form, scalar form, every corner order), exhaustive
on doubled grids (vertices on even coordinates, box edges on all integers, so
that box edges pass through and between vertices), plus a seeded random
structured stream with derived (sliced / taken / concatenated) buffers.
Independently, the implementation's answers (= the model's, by the above) are
compared with an exact oracle built on a different method
(harness/c01_util.py: Fraction clipping + slanted-ray crossing count).
"""
import concurrent.futures as cf
import math
import os
import re
import shutil
import tempfile
import time

import numpy as np

from . import common as C
from . import geomgen as G
from . import c01_util as U
from . import c02_util as U2        # inds_forms / check_inds_forms (shared with C02)

ANCHOR_FILES = ['spatialpandas/geometry/_algorithms/intersection.py',
                'spatialpandas/geometry/_algorithms/orientation.py',
                'spatialpandas/geometry/_algorithms/bounds.py',
                'spatialpandas/geometry/point.py', 'spatialpandas/geometry/multipoint.py',
                'spatialpandas/geometry/line.py', 'spatialpandas/geometry/ring.py',
                'spatialpandas/geometry/multiline.py', 'spatialpandas/geometry/polygon.py',
                'spatialpandas/geometry/multipolygon.py', 'spatialpandas/geometry/baselist.py',
                'spatialpandas/geometry/basefixed.py']
TRUSTED = ['numpy slicing / integer-array indexing as transcribed in Model/Arrow.v, Model/Intersect.v',
           'pyarrow buffers() export (harness/common.py export_listarr/export_fixarr, '
           'harness/c01_util.py export_scalar)',
           'A-FLOAT: on integer-valued coordinates below 2^11 every -, * and comparison of the '
           'kernels is exact in float64/float32/int64/int32/int16 (validated by this run: all five '
           'subtypes are compared with the integer model); for float64 and |integer| <= 2^25 it is a '
           'theorem (C01_*_float_exact) about the binary64 model Model/FloatKernels.v, which '
           'harness/cfloat_util.py compares with the real kernels on arbitrary float64 inputs']

IMPORTS = 'Model.Num Model.Arrow Model.Bounds Model.PointKernels Model.Intersect'
MODEL_FN = {'point': 'point_array', 'multipoint': 'multipoint_array', 'line': 'line_array',
            'ring': 'line_array', 'multiline': 'multiline_array', 'polygon': 'polygon_array',
            'multipolygon': 'multipolygon_array'}
SCALAR_FN = {'multipoint': 'multipoint_scalar', 'line': 'line_scalar', 'ring': 'line_scalar',
             'multiline': 'multiline_scalar', 'polygon': 'polygon_scalar',
             'multipolygon': 'multipolygon_scalar'}
ARR_RES_TY = 'list (option Z * option Z)'
MAXV = 12    # violations reported per signature


def arr_ty(kind):
    return ('fixarr' if kind == 'point' else 'listarr') + ' * list nat * list box'


def arr1_ty(kind):
    return ('fixarr' if kind == 'point' else 'listarr') + ' * list box'


class Acc:
    """cases for the Coq kernel; shards are written and started in the background as soon as a
    family is complete, so that the kernel works while the next family runs the real library"""
    COST = {'point': 3, 'multipoint': 12, 'line': 45, 'ring': 55, 'multiline': 110, 'polygon': 110,
            'multipolygon': 200}

    def __init__(self):
        self.pending = {}
        self.running = []
        self.workdir = tempfile.mkdtemp(prefix='sp_c01_')
        self.ex = cf.ThreadPoolExecutor(max_workers=C.NCPU)
        self.k = 0
        self.ncases = 0

    def add(self, fn, cty, rty, case, result, meta, weight=1):
        j = self.pending.setdefault((fn, cty, rty), [])
        j.append((case, result, meta, weight))
        self.ncases += 1

    def flush(self, target=5000000.0):
        """target: estimated micro-seconds of kernel time per shard"""
        for (fn, cty, rty), items in self.pending.items():
            cur, w = [], 0.0
            for it in items + [None]:
                if it is not None:
                    cur.append(it)
                    w += it[3]
                if cur and (it is None or w >= target):
                    self.k += 1
                    path = C._shard_file(self.workdir, self.k, IMPORTS, fn, cty, rty,
                                         [(c, r) for c, r, _, _ in cur])
                    fut = self.ex.submit(C._run_coqc, path, 1500)
                    self.running.append((fut, path, fn, cur))
                    cur, w = [], 0.0
        self.pending = {}

    def collect(self):
        """-> list of (fn, case, result, meta) on which the kernel-evaluated model differs"""
        self.flush()
        bad = []
        try:
            for fut, path, fn, cur in self.running:
                rc, out, err = fut.result()
                if rc != 0:
                    keep = os.path.join(C.VERIF, 'build', 'failed_c01_' + os.path.basename(path))
                    os.makedirs(os.path.dirname(keep), exist_ok=True)
                    shutil.copy(path, keep)
                    raise C.ModelUnavailable(f"coqc failed on {keep}: {err[-2000:]}")
                for i in C.parse_zlist(out):
                    c, r, m, _ = cur[i]
                    bad.append((fn, c, r, m))
        finally:
            self.ex.shutdown(wait=False, cancel_futures=True)
            shutil.rmtree(self.workdir, ignore_errors=True)
        return bad


def opt(v):
    return None if v is None else C.Some(v)


# ----------------------------------------------------------------------------
# implementation side
# ----------------------------------------------------------------------------
def impl_array(arr, b, inds_np):
    """(whole-array result, at-inds result) as bool arrays; an exception -> ('raised', ..);
    inds_np None: only the whole-array form (second component None)"""
    out = []
    for ii in (None, inds_np):
        if ii is None and out:
            out.append(None)
            break
        try:
            r = arr.intersects_bounds(b) if ii is None else arr.intersects_bounds(b, ii)
            out.append(np.asarray(r, dtype=bool))
        except Exception as e:
            out.append(('raised', type(e).__name__, str(e)[:160]))
    return out


def impl_scalar(el, b):
    try:
        return bool(el.intersects_bounds(b))
    except Exception as e:
        return ('raised', type(e).__name__, str(e)[:160])


def export(kind, arr, scale=1):
    return U.export_points(arr, scale) if kind == 'point' else U.export_array(kind, arr, scale)


def viol(rep, sig, what, rp):
    n = rep._c01_nviol.get(sig, 0)
    rep._c01_nviol[sig] = n + 1
    if n < MAXV:
        rep.violation(sig, what, rp)


def derivation_for(rng, n, mode):
    """(junk-extended element builder, derivation) giving non-zero buffer offsets"""
    if mode == 1:
        k = 1 + rng.randrange(3)
        return ('prefix', k), [('slice', k, k + n)]
    if mode == 2:
        a = rng.randrange(n + 1)
        return ('unrotate', a), [('rotate', a)]
    if mode == 3:
        return ('reversed', 0), [('rev',)]
    return ('plain', 0), []


def physical_elements(elems, how, junk):
    """the constructor input whose derivation yields elems"""
    tag, k = how
    n = len(elems)
    if tag == 'prefix':
        return [junk[i % len(junk)] for i in range(k)] + list(elems) + [junk[0]]
    if tag == 'unrotate':
        # rotate by a: arr[a:] + arr[:a] must equal elems  => input = elems[n-a:] + elems[:n-a]
        return list(elems[n - k:]) + list(elems[:n - k]) if n else []
    if tag == 'reversed':
        return list(elems[::-1])
    return list(elems)


def run_family(rep, acc, kind, elements, boxes, tag, junk, chunk=64, batch=320,
               scalar_boxes=16, scalar_stride=1, oracle_stride=0, classify_stride=0,
               subtypes=G.SUBTYPES, both_every=4, sample=1.0, qscale=1, box_types=True):
    """one enumeration family: every element x every box, through all forms.
    sample < 1: only a seeded fraction of the (chunk, box batch) pairs is run (at least one
    batch per chunk, so every element is exercised); the fraction grows with rep.scale.
    qscale > 1: the boxes are given in units of 1/qscale (corners on the half / quarter grid); the
    library gets box / qscale as floats, the model gets vertices * qscale and the integer box"""
    rng = rep.rng
    nb = len(boxes)
    sample = min(1.0, sample * float(getattr(rep, 'scale', 1) or 1))
    if sample < 1:
        boxes = list(boxes)
        rng.shuffle(boxes)      # every batch is a seeded cross-section of the family's boxes
    for ci, lo in enumerate(range(0, len(elements), chunk)):
        elems = elements[lo:lo + chunk]
        n = len(elems)
        how, deriv = derivation_for(rng, n, ci % 4)
        phys = physical_elements(elems, how, junk)
        assert U.apply_logical(phys, deriv) == list(elems)
        perm = list(range(n))
        rng.shuffle(perm)
        inds = perm + [rng.randrange(n) for _ in range(3)]
        inds_np = np.array(inds, dtype=rng.choice(['int64', 'int32', 'uint32']))
        selems = [U.scale_el(e, qscale) for e in elems]
        arrays = {}
        inert = np.array([e is None or len(e) == 0 for e in elems], dtype=bool)
        res_by_box = {}
        canon = {}
        starts = list(enumerate(range(0, nb, batch)))
        if sample < 1:
            keep = [sb for sb in starts if rng.random() < sample]
            starts = keep or [rng.choice(starts)]
            rep.count('sampled_out_batches', len(range(0, nb, batch)) - len(starts))
        for bj, blo in starts:
            st = subtypes[(ci + bj) % len(subtypes)]
            if st not in arrays:
                arr = U.build(kind, phys, st, deriv)
                arrays[st] = (arr, C.Raw(C.coq(export(kind, arr, qscale))))
            arr, rec = arrays[st]
            bb = boxes[blo:blo + batch]
            both = bj % both_every == 0     # the at-inds form on every both_every-th batch
            results = []
            btype = U.BOXTYPES[(3 * ci + bj) % len(U.BOXTYPES)] if box_types else 'tuple-int'
            meta = {'kind': kind, 'subtype': st, 'elements': phys, 'derivation': deriv,
                    'inds': inds, 'family': tag, 'qscale': qscale, 'box_type': btype}
            rep.count(f'box_type:{btype}')
            for b in bb:
                bi = b if qscale == 1 else tuple(c / qscale for c in b)
                ba = U.boxarg(bi, btype)       # same values, another argument type
                r1, r2 = impl_array(arr, ba, inds_np if both else None)
                for form, r in (('array', r1), ('inds', r2)):
                    if isinstance(r, tuple):
                        viol(rep, f'raises:{kind}:{form}', f'{kind} intersects_bounds ({form} form) raised '
                             f'{r[1]}: {r[2]}', {**meta, 'box': list(b), 'impl': list(r),
                                                 'repro': repro(kind, phys, st, deriv, bi, inds if form == 'inds' else None)})
                ok1, ok2 = not isinstance(r1, tuple), not isinstance(r2, tuple)
                if both:
                    results.append((opt(U.pack_np(r1)) if ok1 else None, opt(U.pack_np(r2)) if ok2 else None))
                else:
                    results.append(opt(U.pack_np(r1)) if ok1 else None)
                if both and ok1 and ok2:
                    # the two array forms must agree, observed directly
                    if not (len(r1) == n and np.array_equal(r1[inds], r2)):
                        viol(rep, f'forms-differ:{kind}:inds',
                             f'{kind}: intersects_bounds(box, inds) differs from intersects_bounds(box)[inds]',
                             {**meta, 'box': list(b), 'array_form': r1.tolist(), 'inds_form': r2.tolist(),
                              'repro': repro(kind, phys, st, deriv, bi, inds)})
                if ok1:
                    ob = U.orient(b)
                    deg = ob[0] == ob[2] or ob[1] == ob[3]
                    key = ob
                    p1 = (results[-1][0] if both else results[-1]).v
                    if key in canon and canon[key][0] != p1:
                        viol(rep, f'corner-order:{kind}',
                             f'{kind}: result depends on the order of the box corners',
                             {**meta, 'box': list(b), 'other_box': list(canon[key][1]),
                              'repro': repro(kind, phys, st, deriv, bi, None)})
                    canon.setdefault(key, (p1, b))
                    res_by_box[b] = r1
                    rep._c01_pairs += n
                    # missing / empty elements never intersect
                    if len(r1) == n and r1[inert].any():
                        i = int(np.nonzero(r1 & inert)[0][0])
                        viol(rep, f'inert-true:{kind}',
                             f'{kind}: a missing/empty element is reported as intersecting',
                             {**meta, 'box': list(b), 'index': i,
                              'repro': repro(kind, phys, st, deriv, bi, None)})
                    if oracle_stride:
                        for i in range((bj + blo) % oracle_stride, n, oracle_stride):
                            check_oracle(rep, kind, selems[i], b, bool(r1[i]), deg, meta, i, elems[i], bi)
                    if classify_stride and not deg:
                        for i in range((bj * 7 + blo) % classify_stride, n, classify_stride):
                            rep.count(f'{kind}:' + U.classify(kind, selems[i], b))
            meta['boxes'] = [list(b) for b in bb]
            meta['both'] = both
            w = Acc.COST[kind] * n * len(bb)
            if both:
                acc.add(f'run_array_packed {MODEL_FN[kind]}', arr_ty(kind), ARR_RES_TY,
                        (rec, [C.Nat(i) for i in inds], U.boxes_raw(bb)), results, meta, 2 * w)
            else:
                acc.add(f'run_array1_packed {MODEL_FN[kind]}', arr1_ty(kind), 'list (option Z)',
                        (rec, U.boxes_raw(bb)), results, meta, w)
            rep.evaluations += 1
            rep.count(f'cases:{kind}')
            rep.count(f'subtype:{st}')
            if deriv:
                rep.count('derived_buffers')
            firsts = [r[0] if both else r for r in results]
            if any(r is not None and 1 < bin(r.v).count('1') <= n for r in firsts):
                rep.nontrivial((kind, st, tag, ci, bj))
        if ci % 6 == 5:
            acc.flush()     # let the kernel start on this family while the library runs the rest
        # scalar form, on the last array built, against the array form of the same box
        arr, _ = arrays[st]
        blist = list(res_by_box.keys())
        for i in range(0, n, scalar_stride):
            if kind == 'point':
                scalar_point(rep, acc, arr, i, elems, blist, res_by_box, scalar_boxes, meta, qscale)
                continue
            try:
                el = arr[i]
            except Exception as e:
                rep.count(f'scalar_unbuildable:{kind}:{type(e).__name__}')
                continue
            if el is None:
                rep.count('scalar_missing_is_None')
                if elems[i] is not None:
                    viol(rep, f'scalar-none:{kind}', f'{kind}: arr[i] is None for a non-missing element',
                         {**meta, 'index': i})
                continue
            sb = [blist[(i * 31 + t * 97) % len(blist)] for t in range(scalar_boxes)]
            got = [impl_scalar(el, U.boxarg(b if qscale == 1 else tuple(c / qscale for c in b),
                                            U.BOXTYPES[(i + t) % len(U.BOXTYPES)] if box_types else 'tuple-int'))
                   for t, b in enumerate(sb)]
            for b, g in zip(sb, got):
                if isinstance(g, tuple):
                    cls = 'empty' if len(elems[i]) == 0 else 'nonempty'
                    viol(rep, f'scalar-raises:{kind}:{cls}',
                         f'{kind} scalar intersects_bounds raised {g[1]}: {g[2]}',
                         {**meta, 'index': i, 'element': elems[i], 'box': list(b),
                          'repro': f'{G.array_class(kind).__name__}([{elems[i]!r}])[0].intersects_bounds({tuple(b)!r})'})
                elif g != bool(res_by_box[b][i]):
                    viol(rep, f'forms-differ:{kind}:scalar',
                         f'{kind}: scalar intersects_bounds differs from the array form for the same element',
                         {**meta, 'index': i, 'element': elems[i], 'box': list(b), 'scalar': g,
                          'array': bool(res_by_box[b][i]),
                          'repro': f'{G.array_class(kind).__name__}([{elems[i]!r}])[0].intersects_bounds({tuple(b)!r})'})
            rep._c01_scalar += len(sb)
            # OPTIONAL extra: the model of the scalar wrapper on the scalar's own (internal) buffers.
            # The public observation - scalar answer = array answer for the same element and box, the
            # array answer being checked against the model - is made above; when the internal
            # attribute / layout is not there this extra is skipped and counted, never an alarm.
            try:
                nbuf, srec = U.export_scalar(el, qscale)
            except Exception as e:
                rep.count(f'internal-unavailable:scalar-listarray:{type(e).__name__}')
                continue
            res = None if any(isinstance(g, tuple) for g in got) else C.Some(U.pack(got))
            acc.add(f'run_scalar_packed {SCALAR_FN[kind]}', 'nat * listarr * list box', 'option Z',
                    (nbuf, srec, U.boxes_raw(sb)), res,
                    {'kind': kind, 'form': 'scalar', 'element': elems[i], 'boxes': [list(b) for b in sb],
                     'subtype': st, 'family': tag, 'qscale': qscale}, Acc.COST[kind] * len(sb))
            rep.count(f'scalar_cases:{kind}')


def scalar_point(rep, acc, arr, i, elems, blist, res_by_box, scalar_boxes, meta, qscale=1):
    el = arr[i]
    if el is None:
        rep.count('scalar_missing_is_None')
        return
    sb = [blist[(i * 31 + t * 97) % len(blist)] for t in range(scalar_boxes)]
    got = [impl_scalar(el, U.boxarg(b if qscale == 1 else tuple(c / qscale for c in b),
                                    U.BOXTYPES[(i + t) % len(U.BOXTYPES)])) for t, b in enumerate(sb)]
    for b, g in zip(sb, got):
        if isinstance(g, tuple):
            viol(rep, 'scalar-raises:point', f'Point.intersects_bounds raised {g[1]}: {g[2]}',
                 {**meta, 'index': i, 'box': list(b)})
        elif g != bool(res_by_box[b][i]):
            viol(rep, 'forms-differ:point:scalar', 'Point.intersects_bounds differs from the array form',
                 {**meta, 'index': i, 'element': elems[i], 'box': list(b), 'scalar': g,
                  'array': bool(res_by_box[b][i]),
                  'repro': f'PointArray([{elems[i]!r}])[0].intersects_bounds({tuple(b)!r})'})
    rep._c01_scalar += len(sb)
    try:
        fv = [float(v) for v in el.flat_values]
    except Exception as e:      # internal attribute: fall back to the enumerated coordinates
        rep.count(f'internal-unavailable:point-flat_values:{type(e).__name__}')
        fv = [float(v) for v in elems[i]]
    res = None if any(isinstance(g, tuple) for g in got) else C.Some(U.pack(got))
    acc.add('run_point_scalar_packed', '(num * num) * list box', 'option Z',
            ((C.num(float(fv[0]) * qscale), C.num(float(fv[1]) * qscale)), U.boxes_raw(sb)), res,
            {'kind': 'point', 'form': 'scalar', 'element': elems[i], 'boxes': [list(b) for b in sb],
             'family': meta['family'], 'qscale': qscale}, 3 * len(sb))
    rep.count('scalar_cases:point')


def check_oracle(rep, kind, el, b, got, deg, meta, i, el_raw=None, bi=None):
    """implementation (= model) against the independent exact oracle.  For line-like and
    polygon-like kinds the property only speaks about positive boxes.  el, b: the geometry the
    oracle judges (scaled to integers); el_raw, bi: what the library was given"""
    if deg and kind not in ('point', 'multipoint'):
        return
    want = U.oracle(kind, el, b)
    rep._c01_oracle += 1
    if want != got:
        el_raw = el if el_raw is None else el_raw
        bi = tuple(b) if bi is None else tuple(bi)
        viol(rep, f'oracle-differs:{kind}',
             f'{kind}: intersects_bounds says {got}, the exact point-set oracle says {want}',
             {**meta, 'index': i, 'element': el_raw, 'box': list(b), 'impl': got, 'oracle': want,
              'repro': f'{G.array_class(kind).__name__}([{el_raw!r}], dtype={meta.get("subtype", "float64")!r})'
                       f'.intersects_bounds({bi!r})'})


def repro(kind, phys, st, deriv, b, inds):
    return (f"harness.c01_util.build({kind!r}, <elements>, {st!r}, {deriv!r})"
            f".intersects_bounds({tuple(b)!r}" + (f", np.array({inds!r})" if inds is not None else '') + ')')


# ----------------------------------------------------------------------------
# enumeration
# ----------------------------------------------------------------------------
def box_mix(rng, pos, deg, ndeg, rev_every=1):
    """canonical positive boxes, the same boxes with reversed corners (one of the three
    other orders each, rotating), and a sample of zero-extent boxes"""
    out = list(pos)
    out += [U.reorder(b, 1 + k % 3) for k, b in enumerate(pos) if k % rev_every == 0]
    d = list(deg)
    rng.shuffle(d)
    out += d[:ndeg]
    return out


def families(rep, tier):
    """yield (kind, elements, boxes, tag, junk, options)"""
    rng = rep.rng
    quick = tier == 'quick'
    ev = [0, 2, 4, 6]
    posL, degL = U.boxes_pos(-1, 7), U.boxes_degenerate(-1, 7)
    allL = U.boxes_all(-1, 7)
    P = U.grid_points(ev)

    # ---- points: every grid point, missing; all 6561 corner pairs
    pts = [None] + [list(p) for p in P] + [None, [0, 0]]
    yield 'point', pts, allL, 'points-all-boxes', [[1, 1], None], dict(batch=420, scalar_boxes=400 if quick else 6561,
                                                                   oracle_stride=1)
    # ---- multipoints: all sets of <= 2 grid points
    mps = [None, []] + U.polylines(ev, 2) + [None, []]
    yield 'multipoint', mps, allL if not quick else box_mix(rng, posL, degL, 1377), 'multipoints<=2', \
        [[1, 1, 3, 3], None, []], dict(oracle_stride=11 if quick else 7, scalar_boxes=12, batch=160, sample=.5 if quick else 1)
    # ---- lines: all polylines of <= 3 vertices (thorough: + 4-vertex sample)
    lines = [None, []] + U.polylines(ev, 3)
    lbox = box_mix(rng, posL, degL, 24 if quick else 1377, rev_every=8 if quick else 1)
    yield 'line', lines, lbox, 'polylines<=3', [[1, 1, 5, 3], None, []], \
        dict(oracle_stride=37 if quick else 11, classify_stride=101, scalar_boxes=6 if quick else 12,
             batch=160, sample=1 / 3 if quick else 1, scalar_stride=2 if quick else 1)
    if not quick:
        extra = [U.flat([rng.choice(P) for _ in range(4)]) for _ in range(6000)]
        yield 'line', extra, lbox, 'polylines-4', [[1, 1, 5, 3], None, []], \
            dict(oracle_stride=11, classify_stride=101, scalar_boxes=6, batch=160, sample=.35, scalar_stride=2)
    # ---- rings: closed polylines a-b-c-a (incl. degenerate), RingArray
    tri = [U.flat([a, b, c, a]) for a in P for b in P for c in P]
    if quick:
        tri = rng.sample(tri, 384)
    rings = [None, []] + tri
    yield 'ring', rings, box_mix(rng, posL, degL, 60, rev_every=3), 'closed-triangles', [[1, 1, 5, 3, 1, 1], None], \
        dict(oracle_stride=29, classify_stride=211, scalar_boxes=6, batch=160, sample=.5)
    # ---- multilines: 1-3 lines of 1-2 vertices, with an empty line among them
    segs = U.polylines(ev, 2)
    ml = [None, [], [[0, 0, 6, 6]], [[0, 0, 6, 6], []], [[], [0, 6, 6, 0]]]
    for _ in range(900 if quick else 4000):
        k = rng.choice([1, 2, 2, 3])
        e = [rng.choice(segs) for _ in range(k)]
        if rng.random() < .1:
            e.insert(rng.randrange(len(e) + 1), [])
        ml.append(e)
    ml += [[U.flat([rng.choice(P) for _ in range(3)]) for _ in range(2)] for _ in range(300 if quick else 1000)]
    yield 'multiline', ml, box_mix(rng, posL[::2] if quick else posL, degL, 60, rev_every=3), 'multilines', [[[1, 1, 5, 3]], None, []], \
        dict(oracle_stride=31, classify_stride=307, scalar_boxes=6, batch=160, sample=.5)

    # ---- polygons on the 3x3 sub-grid {2,4,6}^2, boxes on 0..8
    R = U.simple_rings([2, 4, 6], (3, 4) if quick else (3, 4, 5))
    if not quick and len(R) > 1718:
        R = R[:218] + rng.sample(R[218:], 1500)
    posP, degP = U.boxes_pos(0, 8), U.boxes_degenerate(0, 8)
    polys = [None, []]
    for k, r in enumerate(R):
        polys.append([U.close(r, cw=False, rot=k)])
        polys.append([U.close(r, cw=True, rot=k + 1)])
    yield 'polygon', polys, box_mix(rng, posP, degP, 40, rev_every=4), 'simple-rings-3x3', \
        [[[1, 1, 5, 1, 5, 5, 1, 1]], None, []], dict(oracle_stride=5 if quick else 2, classify_stride=53,
                                                    scalar_boxes=8, batch=160, sample=.5 if quick else 1)
    # ---- polygons with one hole: shell around [0,8]^2, hole on the sub-grid, boxes on -1..9
    shells = [[(0, 0), (8, 0), (8, 8), (0, 8)],
              [(0, 0), (4, 0), (8, 0), (8, 8), (0, 8), (0, 4)],
              [(2, 0), (6, 0), (8, 2), (8, 6), (6, 8), (2, 8), (0, 6), (0, 2)]]
    posH, degH = U.boxes_pos(-1, 9), U.boxes_degenerate(-1, 9)
    holed = []
    for k, h in enumerate(R[:218]):
        for si, s in enumerate(shells):
            if quick and si and k % 6:
                continue
            for cw in (False, True):
                # valid: hole wound opposite to the shell
                holed.append([U.close(s, cw=cw, rot=k), U.close(h, cw=not cw, rot=k)])
            if k % 5 == 0:
                holed.append([U.close(s), U.close(h)])      # same winding (not a valid polygon)
    if not quick:
        # two holes: disjoint small triangles
        small = [r for r in R[:76]]
        for _ in range(1500):
            a, b = rng.sample(small, 2)
            pa, pb = set(a), set(b)
            if pa & pb:
                continue
            if any(U._segs_meet(a[i], a[(i + 1) % 3], b[j], b[(j + 1) % 3]) for i in range(3) for j in range(3)):
                continue
            holed.append([U.close(shells[0]), U.close(a, cw=True), U.close(b, cw=True)])
    hb = box_mix(rng, posH, degH, 40, rev_every=5)
    yield 'polygon', [None, []] + holed, hb, 'shell+hole', [[[1, 1, 5, 1, 5, 5, 1, 1]], None, []], \
        dict(oracle_stride=6 if quick else 2, classify_stride=97, scalar_boxes=8, batch=160, sample=.5)

    # ---- multipolygons: 1 part, 2 parts (disjoint / touching / overlapping), part inside a hole
    mp = [None, [], [[U.close(R[0])], []]]
    for k, r in enumerate(R[:218]):
        if quick and k % 3:
            continue
        mp.append([[U.close(r, cw=bool(k & 1), rot=k)]])
    for _ in range(300 if quick else 3000):
        a, b = rng.choice(R), rng.choice(R)
        mp.append([[U.close(a, cw=rng.random() < .5)], [U.close(b, cw=rng.random() < .5)]])
    yield 'multipolygon', mp, box_mix(rng, posP, degP, 40, rev_every=4), 'multipolygon-1-2-parts', \
        [[[[1, 1, 5, 1, 5, 5, 1, 1]]], None, []], dict(oracle_stride=8 if quick else 3, classify_stride=89,
                                                      scalar_boxes=8, batch=160, sample=.5)
    # nested: big shell with a big hole, second part strictly inside the hole (grid 0..12)
    inner = U.simple_rings([4, 6, 8], (3, 4))
    if quick:
        inner = rng.sample(inner, 24)
    nest = [None, []]
    big = [(0, 0), (12, 0), (12, 12), (0, 12)]
    hole = [(2, 2), (10, 2), (10, 10), (2, 10)]
    for k, r in enumerate(inner):
        nest.append([[U.close(big, rot=k), U.close(hole, cw=True, rot=k)], [U.close(r, cw=bool(k & 1))]])
        if k % 4 == 0:
            nest.append([[U.close(r)], [U.close(big, cw=True), U.close(hole)]])
    posN = U.boxes_pos(-1, 13)
    if quick:
        posN = rng.sample(posN, 1500)
    yield 'multipolygon', nest, box_mix(rng, posN, U.boxes_degenerate(-1, 13), 20, rev_every=6), 'part-in-hole', \
        [[[[1, 1, 5, 1, 5, 5, 1, 1]]], None, []], dict(oracle_stride=2 if quick else 1, classify_stride=61,
                                                      scalar_boxes=8, chunk=64, batch=160,
                                                      sample=1 if quick else .5)


def frac_boxes(rng, n, lo=-1, hi=9):
    """boxes in units of 1/4 whose corners are not all whole numbers: half and quarter values,
    thin boxes inside one lattice cell (they collapse when truncated), boxes whose truncation
    grows them onto a lattice line; 1/4 with reversed corners, a few of zero extent"""
    out = []
    while len(out) < n:
        def coord():
            return 4 * rng.randint(lo, hi - 1) + rng.choice([0, 1, 2, 2, 2, 3])
        kind = rng.random()
        if kind < .25:      # thin in x and/or y, strictly inside a lattice cell
            x0 = 4 * rng.randint(lo, hi - 1) + rng.choice([1, 2]); x1 = x0 + 1
            y0, y1 = sorted((coord(), coord()))
            if rng.random() < .5:
                x0, y0, x1, y1 = y0, x0, y1, x1
        else:
            x0, x1 = sorted((coord(), coord()))
            y0, y1 = sorted((coord(), coord()))
        if all(c % 4 == 0 for c in (x0, y0, x1, y1)):
            continue
        if rng.random() > .04 and (x0 == x1 or y0 == y1):
            continue
        b = (x0, y0, x1, y1)
        if rng.random() < .25:
            b = U.reorder(b, rng.randint(1, 3))
        out.append(b)
    return out


def frac_families(rep, tier):
    """every kind against boxes on the half / quarter grid (model side scaled by 4), the integer
    subtypes first: a box cast to the coordinate dtype instead of float would be truncated"""
    rng = rep.rng
    quick = tier == 'quick'
    ev = [0, 2, 4, 6]
    P = U.grid_points(ev)
    n = 96 if quick else 640
    subs = ['int64', 'float64', 'int32', 'int16', 'float32']
    R = U.simple_rings([2, 4, 6], (3, 4))
    lines = [None, []] + [U.flat([rng.choice(P) for _ in range(rng.randint(1, 3))]) for _ in range(n)]
    rings = [None, []] + [U.flat([a, b, c, a]) for a, b, c in
                          ([rng.choice(P) for _ in range(3)] for _ in range(n // 2))]
    mls = [None, []] + [[U.flat([rng.choice(P) for _ in range(rng.randint(1, 3))])
                         for _ in range(rng.randint(1, 3))] for _ in range(n // 2)]
    polys = [None, []]
    shell = [(0, 0), (8, 0), (8, 8), (0, 8)]
    for k in range(n // 2):
        r = rng.choice(R)
        polys.append([U.close(r, cw=bool(k & 1), rot=k)])
        if k % 3 == 0:
            polys.append([U.close(shell, cw=bool(k & 2)), U.close(r, cw=not (k & 2))])
    mps = [None, []] + [[[U.close(rng.choice(R), cw=rng.random() < .5)] for _ in range(rng.randint(1, 2))]
                        for _ in range(n // 2)]
    mpts = [None, []] + [U.flat([rng.choice(P) for _ in range(rng.randint(1, 2))]) for _ in range(n // 2)]
    pts = [None] + [list(p) for p in P]
    fams = [('point', pts), ('multipoint', mpts), ('line', lines), ('ring', rings), ('multiline', mls),
            ('polygon', polys), ('multipolygon', mps)]
    for kind, els in fams:
        yield kind, els, frac_boxes(rng, 160 if quick else 1500), 'fractional-boxes:' + kind, \
            [els[2], None], dict(batch=32, qscale=4, subtypes=subs, oracle_stride=4, scalar_boxes=8,
                                 both_every=2, sample=1 if quick else .5)


CORPUS = [
    # (kind, elements): always run, every element also through the scalar form
    ('multipolygon', [[], None, [[[0, 0, 4, 0, 4, 4, 0, 0]]], [[[0, 0, 4, 0, 4, 4, 0, 0]], []], []]),
    ('polygon', [[], None, [[0, 0, 4, 0, 4, 4, 0, 0]], [[0, 0, 4, 0, 4, 4, 0, 0], []], [[], [0, 0, 4, 0, 4, 4, 0, 0]]]),
    ('multiline', [[], None, [[0, 0, 4, 4]], [[0, 0, 4, 4], []], [[], [0, 4, 4, 0]]]),
    ('line', [[], None, [2, 2], [0, 0, 4, 4]]),
    ('ring', [[], None, [2, 2], [0, 0, 4, 4, 0, 4, 0, 0]]),
    ('multipoint', [[], None, [2, 2], [0, 0, 4, 4]]),
    ('point', [None, [2, 2], [0, 0]]),
    # the design's non-vacuity shapes: a holed square, a line collinear with a box edge
    ('polygon', [[[0, 0, 8, 0, 8, 8, 0, 8, 0, 0], [2, 2, 2, 6, 6, 6, 6, 2, 2, 2]]]),
    ('line', [[0, 3, 6, 3], [3, 0, 3, 6]]),
    # scalar buffer_inner_offsets with leading empty rings (repaired by 0e152f8)
    ('polygon', [[[], [], [], [], [], [], [], [], [0, 0, 3, 0, 3, 4, 0, 0]], [[]]]),
    ('multiline', [[[], [], [], [], [0, 0, 3, 4]], [[]]]),
    ('multipolygon', [[[[]]], [[]], [[], [[0, 0, 3, 0, 3, 4, 0, 0]]]]),
]


def run(rep):
    tier = getattr(rep, 'tier_run', rep.tier)
    rep._c01_nviol, rep._c01_pairs, rep._c01_scalar, rep._c01_oracle = {}, 0, 0, 0
    rep.rule = ('one case = one real array (<= 64 elements, one of 5 subtypes, plain / sliced / rotated-'
                'concatenated / reversed-taken buffers) x a batch of <= 320 boxes, evaluated through '
                'intersects_bounds(box) (every 4th batch also intersects_bounds(box, inds)) and by the Coq model on the exported '
                'buffers; families: all points / multipoints of <= 2 points on {0,2,4,6}^2 x all 9^4 corner '
                'pairs on -1..7; all polylines of <= 3 vertices x all 1296 positive boxes + reversed corners + '
                'zero-extent boxes; closed triangles (RingArray); multilines; all simple 3-4-vertex rings on '
                '{2,4,6}^2 both windings as polygons x boxes on 0..8; shells with one hole (valid and '
                'same-winding) x boxes on -1..9; multipolygons of 1-2 parts and a part inside a hole; a fixed '
                'corpus of empty/missing elements; every kind against boxes with corners on the half / quarter grid '
                '(integer subtypes first; model side scaled by 4); a seeded random stream with random derivations; '
                'near-tie configurations with coordinates up to 2^25 in float64/float32/int64/int32; the box '
                'ARGUMENT TYPE (Python ints/floats, numpy float32/float64/int32/int64 scalars, float32/float64/int64 '
                'ndarrays, mixed) rotates over the batches of every family and is swept completely on near ties '
                'with coordinate differences > 2^12 (float32 products inexact) for float32/int32/int64/float64 '
                'arrays in the array, at-inds and scalar forms; the at-inds form of every kind also with the '
                'positions as int8/uint8/int16/uint16/int32/uint32/int64 arrays beyond half the type\'s range '
                '(400 elements; points and lines also 33100), list, negative, empty, read-only, strided, element by '
                'element against the array form and the scalar form; OBJECT HISTORY: for every kind, arrays of 36 '
                'elements (five subtypes; every other round elements and boxes on the quarter grid) and of 1100 elements '
                '(three default index pages) are queried after each of: build_sindex() / .sindex / build_sindex(page_size, p) / '
                'GeoSeries.sindex / GeoSeries.build_sindex / GeoDataFrame.build_sindex / a GeoSeries made of an indexed array / '
                'earlier queries / bounds computed / slice, reverse, take, copy, pickle, concat, mask of an indexed array / the '
                'same derived objects indexed afterwards (thorough: also cx on the indexed array), in the whole-array, '
                'at-positions, scalar and GeoSeries forms, every box in all four corner orders with rotating argument types: '
                'all answers equal those of a never-touched array of the same elements, which go to the model and the oracle. A case is '
                'non-trivial when some box separates the elements (some True and some False). '
                'quick tier: every element of every family is run, against a seeded fraction (1/3 for polylines, '
                '1/2 otherwise, times rep.scale) of its box batches; thorough tier: all batches for points, '
                'multipoints, polylines of <= 3 vertices and simple-ring polygons, a seeded 1/2 (1/3 for 4-vertex '
                'polylines) of the batches of the larger families. '
                'evaluations = Coq cases; element_box_pairs in coverage counts (element, box) pairs.')
    acc = Acc()
    t0 = time.time()
    # the multipoint kernel is a prange kernel: the bulk runs it on one thread (thousands of
    # tiny parallel regions are slow on a loaded machine), the corpus and the random stream on all
    import numba
    nthreads = numba.get_num_threads()
    numba.set_num_threads(1)
    try:
        # debugging knob (mutation tests): VERIF_C01_STREAMS=history,inds runs only those streams
        sel = os.environ.get('VERIF_C01_STREAMS')
        sel = set(sel.split(',')) if sel else None
        for name, fn in (('bulk', lambda: bulk(rep, acc, tier)),
                         ('random', lambda: random_stream(rep, acc, tier)),
                         ('band', lambda: band_stream(rep, acc, tier)),
                         ('boxtype', lambda: boxtype_stream(rep, acc, tier)),
                         ('inds', lambda: inds_forms_stream(rep, tier)),
                         ('history', lambda: history_stream(rep, acc, tier))):
            if sel is None or name in sel:
                fn()
    finally:
        numba.set_num_threads(nthreads)
    rep.extra['bulk_cpu_seconds'] = round(time.process_time(), 1)
    finish(rep, acc, tier, t0)
    if sel is None or 'float' in sel:
        run_float_model(rep)


# ----------------------------------------------------------------------------
# the at-inds form with `inds` given in every form a caller may give it
# ----------------------------------------------------------------------------
def _wide_element(kind, i, width, jitter=False):
    x, y = float(i % width), float(i // width)
    if jitter:      # off the integer lattice, by quarters
        x, y = x + ((7 * i) % 4) / 4, y + ((3 * i + 1) % 4) / 4
    tri = [x, y, x + .5, y, x, y + .5, x, y]
    return {'point': [x, y], 'multipoint': [x, y, x + .5, y], 'line': [x, y, x + .5, y + .5],
            'ring': tri, 'multiline': [[x, y, x + .5, y + .5], [x, y + .25, x + .25, y + .25]],
            'polygon': [tri], 'multipolygon': [[tri]]}[kind]


def inds_forms_stream(rep, tier):
    """intersects_bounds(box, inds) of every kind with the positions given as int8 / uint8 / int16 /
    uint16 / int32 / uint32 / int64 arrays holding values beyond half the type's range (arrays of
    400 elements; points and lines also 33 100), as a list, a list of numpy integers, with negative
    positions, empty, read-only, strided: every answer equal, element by element, to
    intersects_bounds(box)[position] AND to the scalar form of that element.  (Tuples are not
    positions for intersects_bounds -- numpy reads them as a multi-dimensional index -- and are
    not given.)"""
    t0 = time.time()
    rng = rep.rng
    specs = [(kind, 400, 20, {5, 100, 128, 399}) for kind in G.KINDS]
    specs.append(('point', 400, 20, set()))
    specs.append(('point', 33100, 200, {64, 16384, 32800}))
    specs.append(('line', 33100, 200, {70, 20000}))
    if tier != 'quick':
        specs += [(kind, 33100, 200, {70, 20000}) for kind in G.KINDS if kind not in ('point', 'line')]
    for kind, n, width, missing in specs:
        els = [None if i in missing else _wide_element(kind, i, width) for i in range(n)]
        arr = G.make_array(kind, els, 'float64')
        height = (n + width - 1) // width
        mark_pos = [p for p in (101, 201, 20001, 32901) if p < n]
        W, H = float(width), float(height)
        boxes = [(W * 0.11, H * 0.1 + 0.2, W * 0.6, H * 0.85), (W * 0.45 + 0.3, -1.0, W + 1.0, H * 0.5 + 0.1),
                 (W * 0.7, H * 0.9, W * 0.2 + 0.1, H * 0.3)]
        for p in mark_pos:      # a box holding one element only: beyond half the range of a narrow type
            x, y = float(p % width), float(p // width)
            boxes.append((x - 0.1, y - 0.1, x + 0.6, y + 0.6))
        for b in boxes:
            meta = {'family': 'inds-forms', 'kind': kind, 'n': n, 'width': width,
                    'missing': sorted(missing), 'box': list(b)}
            try:
                full = np.asarray(arr.intersects_bounds(b))
            except Exception as e:  # noqa: BLE001
                viol(rep, f'inds-form:{kind}:array-form-raises',
                     f'{kind}: intersects_bounds(box) raised {type(e).__name__}', meta)
                continue
            cache = {}

            def scalar_at(p):
                if p not in cache:
                    e = arr[p]
                    cache[p] = False if e is None else bool(e.intersects_bounds(b))
                return cache[p]
            forms = U2.inds_forms(rng, n, tuples=False, must=mark_pos)
            probs = U2.check_inds_forms(forms, lambda inds: arr.intersects_bounds(b, inds), full, scalar_at)
            rep.count('inds-forms:calls', len(forms))
            rep.count(f'inds-forms:{kind}')
            vals = [bool(full[p]) for _, _, pos in forms for p in pos]
            if any(vals) and not all(vals):
                rep.count('inds-forms:answers-vary')
            seen = set()
            for fname, problem, detail in probs:
                sig = f'inds-form:{kind}:{problem}'
                if sig in seen:
                    continue
                seen.add(sig)
                viol(rep, sig, f'{kind}: intersects_bounds(box, inds) with the positions given as {fname}: '
                     f'{problem} ({detail})',
                     {**meta, 'form': fname, 'detail': detail, 'all_problems': [[a, c] for a, c, _ in probs][:40]})
    rep.extra['inds_forms_seconds'] = round(time.time() - t0, 1)


# ----------------------------------------------------------------------------
# the answer is a function of (element, box) only: not of what was done to the object before
# ----------------------------------------------------------------------------
def _probe(rep, ctx, hist, label, arr, series, pos, boxes, expected, inds, nscalar=4):
    """every form of intersects_bounds on the object `arr` (whose element j is element pos[j] of the
    fresh array), every box (all corner orders, rotating argument types), against the answers of a
    never-touched array of the same elements (which the kernel compares with the model)"""
    kind = ctx['kind']
    m = len(pos)
    pos_np = np.array(pos, dtype='int64')
    ii = [i % m for i in inds] if m else []
    ii_np = np.array(ii, dtype='int64')

    def bad(form, b, bt, what, got, want, extra=None):
        if isinstance(got, list) and isinstance(want, list) and len(want) > 64:
            extra = {**(extra or {}), 'differs_at': [j for j, (x, y) in enumerate(zip(got, want)) if x != y][:20],
                     'lengths': [len(got), len(want)]}
            got = want = None
        viol(rep, f'history-dependent:{kind}:{form}',
             f'{kind}: intersects_bounds ({form} form) {what} after: {hist}' + (f' / {label}' if label else ''),
             {**ctx, 'history': hist, 'label': label, 'form': form, 'box': list(b), 'box_type': bt,
              'got': got, 'fresh_object_answers': want, **(extra or {})})
    first = None
    for bi, b in enumerate(list(boxes) + [boxes[0]]):
        bt = U.BOXTYPES[(bi + len(label) + len(hist)) % len(U.BOXTYPES)]
        ba = U.boxarg(b, bt)
        want = expected[bi % len(boxes)][pos_np] if m else np.zeros(0, dtype=bool)
        r1, r2 = impl_array(arr, ba, ii_np)
        rep._c01_pairs += m
        for form, r, w in (('array', r1, want), ('inds', r2, want[ii_np] if m else want)):
            if isinstance(r, tuple):
                bad(form, b, bt, f'raises {r[1]}: {r[2]}', list(r), w.tolist(), {'inds': ii})
            elif not (len(r) == len(w) and np.array_equal(r, w)):
                bad(form, b, bt, 'answers differently from a fresh array of the same elements',
                    r.tolist(), w.tolist(), {'inds': ii})
        if bi == 0 and not isinstance(r1, tuple):
            first = r1
        elif bi == len(boxes) and first is not None and not isinstance(r1, tuple) \
                and not np.array_equal(first, r1):
            bad('array', b, bt, 'gives two different answers to the same call', r1.tolist(), first.tolist())
        for t in range(nscalar if m else 0):
            j = (bi * 7 + t * 5 + len(hist)) % m
            try:
                el = arr[j]
                g = False if el is None else bool(el.intersects_bounds(ba))
            except Exception as e:  # noqa: BLE001
                bad('scalar', b, bt, f'raises {type(e).__name__}: {str(e)[:120]}', None, bool(want[j]), {'index': j})
                continue
            rep._c01_scalar += 1
            if g != bool(want[j]):
                bad('scalar', b, bt, 'answers differently from a fresh array of the same element',
                    g, bool(want[j]), {'index': j})
        if series is not None:
            try:
                sr = series.intersects_bounds(ba)
                got, idx = np.asarray(sr, dtype=bool), list(sr.index)
            except Exception as e:  # noqa: BLE001
                bad('series', b, bt, f'raises {type(e).__name__}: {str(e)[:120]}', None, want.tolist())
                continue
            if not (len(got) == len(want) and np.array_equal(got, want)):
                bad('series', b, bt, 'answers differently from a fresh array of the same elements',
                    got.tolist(), want.tolist())
            elif idx != list(series.index):
                bad('series', b, bt, 'returns a Series with another index', idx[:8], list(series.index)[:8])
    rep.count('history:objects_probed')


def _history_baseline(rep, acc, kind, st, els, boxes, family, scale=1, oracle_stride=1, oels=None):
    """answers of a never-touched array for every box; they go to the kernel (model) and to the
    point-set oracle, and the four corner orders of a box must agree; -> [bool array per box].
    scale > 1: boxes and oels (the integer elements the oracle judges) are in units of 1/scale"""
    arr = G.make_array(kind, els, st)
    oels = els if oels is None else oels
    meta = {'kind': kind, 'subtype': st, 'derivation': [],
            'inds': [], 'family': family, 'boxes': [list(b) for b in boxes], 'both': False, 'qscale': scale}
    if len(els) <= 64:
        meta['elements'] = els
    expected, results = [], []
    for b in boxes:
        bi = b if scale == 1 else tuple(c / scale for c in b)
        r1, _ = impl_array(arr, bi, None)
        if isinstance(r1, tuple):
            viol(rep, f'raises:{kind}:array', f'{kind} intersects_bounds raised {r1[1]}: {r1[2]}',
                 {**meta, 'box': list(b)})
            return None
        expected.append(r1)
        results.append(C.Some(U.pack_np(r1)))
        ob = U.orient(b)
        deg = ob[0] == ob[2] or ob[1] == ob[3]
        for i in range(0, len(els), oracle_stride):
            check_oracle(rep, kind, oels[i], b, bool(r1[i]), deg, meta, i, els[i], bi)
    for k in range(0, len(boxes), 4):
        for j in range(1, 4):
            if not np.array_equal(expected[k], expected[k + j]):
                viol(rep, f'corner-order:{kind}', f'{kind}: result depends on the order of the box corners',
                     {**meta, 'box': list(boxes[k + j]), 'other_box': list(boxes[k])})
    if len(els) <= 64:
        acc.add(f'run_array1_packed {MODEL_FN[kind]}', arr1_ty(kind), 'list (option Z)',
                (C.Raw(C.coq(export(kind, arr, scale))), U.boxes_raw(boxes)), results, meta,
                Acc.COST[kind] * len(els) * len(boxes))
        rep.evaluations += 1
        rep.count(f'cases:{kind}')
    return expected


def _wide_int(kind, i, width):
    """_wide_element at a position off the integer lattice (quarters), as integers in units of 1/4"""
    e = _wide_element(kind, i, width, jitter=True)

    def q(x):
        return [q(y) for y in x] if isinstance(x, list) else int(round(4 * x))
    return q(e)


def history_stream(rep, acc, tier):
    """OBJECT HISTORY as a dimension (checklist 4/5): what was done to the array before the call
    -- spatial index built through every public route (build_sindex with and without page_size / p,
    .sindex, GeoSeries.sindex / build_sindex, GeoDataFrame.build_sindex, cx), earlier queries,
    bounds computed, the object derived from an indexed one (slice / reverse / take / copy / pickle /
    concat / mask) or indexed after being derived -- must not change any answer: whole-array form,
    at-positions form, scalar form and GeoSeries form, every box in all four corner orders and
    rotating argument types, equal bit for bit to the answers of a never-touched array of the same
    elements; those go to the Coq model and to the exact oracle.  Small arrays (36 elements, one
    index page or, with page_size <= 4, a tree of several levels) in the five subtypes, and arrays
    of 1100 elements (three default pages of 512)."""
    t0, c0 = time.time(), time.process_time()
    rng = rep.rng
    quick = tier == 'quick'
    for rnd in range(2 if quick else 10):
        for ki, kind in enumerate(G.KINDS):
            # odd rounds: elements AND boxes on the quarter grid (float subtypes; model side in units of 1/4)
            q = 4 if rnd % 2 else 1
            st = G.SUBTYPES[(ki + 3 * rnd) % len(G.SUBTYPES)] if q == 1 else ('float64', 'float32')[(ki + rnd // 2) % 2]
            n = 36
            oels = U.history_elements(rng, kind, n, q)
            els = oels if q == 1 else [U.scale_el(U.to_float(e), 1 / q) for e in oels]
            boxes = U.history_boxes(rng, kind, q)
            prm = U.history_params(rng, n)
            inds = prm['perm'][::-1][:12]
            expected = _history_baseline(rep, acc, kind, st, els, boxes, 'history', scale=q, oels=oels)
            if q != 1:
                boxes = [tuple(c / q for c in b) for b in boxes]
            if expected is None:
                continue
            if any(e.any() and not e.all() for e in expected):
                rep.nontrivial((kind, st, 'history', rnd))
            ctx = {'family': 'history', 'kind': kind, 'subtype': st, 'elements': els, 'params': prm}
            for hi, hist in enumerate(['none'] + U.HISTORIES):
                if hist.startswith('cx') and quick:
                    continue        # the indexer compiles the R-tree query class (seconds): thorough tier
                try:
                    objs = U.history_objects(hist, G.make_array(kind, els, st), prm)
                except Exception as e:  # noqa: BLE001
                    viol(rep, f'history-raises:{kind}', f'{kind}: {hist} raised {type(e).__name__}: {str(e)[:160]}',
                         {**ctx, 'history': hist})
                    continue
                rep.count(f'history:{hist}')
                for label, obj, series, pos in objs:
                    _probe(rep, ctx, hist, label, obj, series, pos, boxes, expected, inds,
                           nscalar=2 if label else 4)
    # beyond one page of the default index (512): 1100 elements on the quarter grid
    width, n = 40, 1100
    cb = [(17, 13, 95, 82), (-4, -4, 170, 30), (61, 50, 66, 54), (80, 40, 150, 120)]   # units of 1/4
    boxes = [U.reorder(b, k) for b in cb for k in range(4)]
    for ki, kind in enumerate(G.KINDS):
        missing = {5, 100, 513, 1025}
        els = [None if i in missing else _wide_int(kind, i, width) for i in range(n)]
        fl = [None if e is None else U.scale_el(U.to_float(e), .25) for e in els]
        expected = _history_baseline(rep, acc, kind, 'float64', fl, boxes, 'history-large', scale=4,
                                     oracle_stride=23, oels=els)
        if expected is None:
            continue
        ctx = {'family': 'history-large', 'kind': kind, 'subtype': 'float64', 'n': n, 'width': width,
               'missing': sorted(missing), 'qscale': 4, 'params': None}
        prm = {'k': 1, 'perm': [3, 700, 512, 1099], 'mask': [True] * n}
        inds = [0, 511, 512, 513, 1023, 1024, 1099, 100, 42 + 40 * 3]
        hs = ['build_sindex()', 'GeoSeries.sindex', 'build_sindex(page_size=4)']
        for hist in hs if not quick else hs[:2] + hs[2:] * (ki % 2):
            objs = U.history_objects(hist, G.make_array(kind, fl, 'float64'), prm)
            rep.count(f'history-large:{hist}')
            for label, obj, series, pos in objs:
                _probe(rep, ctx, hist, label, obj, series, pos, [tuple(c / 4 for c in b) for b in boxes],
                       expected, inds, nscalar=3)
    rep.extra['history_seconds'] = round(time.time() - t0, 1)
    rep.extra['history_cpu_seconds'] = round(time.process_time() - c0, 1)


def replay_history(rep, rp):
    """rebuild the elements, perform the recorded history on a fresh array and ask again, in every
    form and corner order; the reference is a never-touched array (compared with the model)"""
    kind, st, hist = rp['kind'], rp['subtype'], rp['history']
    rep._c01_nviol, rep._c01_pairs, rep._c01_scalar, rep._c01_oracle = {}, 0, 0, 0
    if rp['family'] == 'history-large':
        n, width, missing = rp['n'], rp['width'], set(rp['missing'])
        els = [None if i in missing else U.scale_el(U.to_float(_wide_int(kind, i, width)), .25) for i in range(n)]
        prm = {'k': 1, 'perm': [3, 700, 512, 1099], 'mask': [True] * n}
    else:
        els, prm = rp['elements'], rp['params']
    boxes = [U.reorder(U.orient(tuple(rp['box'])), k) for k in range(4)]
    fresh = G.make_array(kind, els, st)
    expected = [np.asarray(fresh.intersects_bounds(b), dtype=bool) for b in boxes]
    for b, e in zip(boxes, expected):
        print('fresh array, box', b, ':', U.pack_np(e) if len(e) > 64 else e.astype(int).tolist())
    ok = True
    if len(els) <= 64:
        q = 1 if all(float(c).is_integer() for c in [v for v in G.flat_coords(els) if v is not None] + list(boxes[0])) else 4
        bad = C.coq_mismatches(IMPORTS, f'run_array1_packed {MODEL_FN[kind]}', arr1_ty(kind), 'list (option Z)',
                               [(export(kind, fresh, q), U.boxes_raw([tuple(int(c * q) for c in b) for b in boxes]))],
                               [[C.Some(U.pack_np(e)) for e in expected]])
        print('fresh array against the model:', 'agrees' if not bad else 'DIFFERS')
        ok = not bad
    ctx = {'family': rp['family'], 'kind': kind, 'subtype': st}
    for label, obj, series, pos in U.history_objects(hist, G.make_array(kind, els, st), prm):
        if label != rp.get('label', label):
            continue
        _probe(rep, ctx, hist, label, obj, series, pos, boxes, expected, rp.get('inds') or [0, 1, 2])
    for vio in rep.violations:
        r = vio.get('replay', {})
        print('  ', vio['signature'], '-', vio['what'], '| box', r.get('box'), 'as', r.get('box_type'),
              '| got', str(r.get('got'))[:200], '| fresh', str(r.get('fresh_object_answers'))[:200])
    return ok and not rep.violations


def run_float_model(rep):
    """the binary64 model (Model/FloatKernels.v: triangle_orientation, segments_intersect_1d,
    segments_intersect) against the real kernels on arbitrary float64 inputs; on the integers
    |z| <= 2^25 that model is PROVED equal to the integer model (C01_*_float_exact)"""
    try:
        from . import cfloat_util
        cfloat_util.run_float_kernels(rep)
    except C.ModelUnavailable:
        raise
    except Exception as e:  # noqa: BLE001
        viol(rep, 'float-kernel-harness-error',
             f'the float-kernel correspondence could not run: {type(e).__name__} {e}',
             {'float_kernel': 'harness-error', 'error': f'{type(e).__name__}: {e}'})


def bulk(rep, acc, tier):
    # debugging knobs (mutation tests on a loaded machine): run only some families / a fraction
    # of the boxes.  Unset in normal runs.
    only = os.environ.get('VERIF_C01_FAMILIES')
    frac = float(os.environ.get('VERIF_C01_BOXFRAC', '1'))
    import itertools
    for kind, elements, boxes, tag, junk, opts in itertools.chain(frac_families(rep, tier), families(rep, tier)):
        if only and tag.split(':')[0] not in only.split(','):
            continue
        if frac < 1:
            boxes = boxes[::max(1, int(round(1 / frac)))]
        t1 = time.time()
        run_family(rep, acc, kind, elements, boxes, tag, junk, **opts)
        acc.flush()
        rep.count(f'family:{tag}:elements', len(elements))
        rep.count(f'family:{tag}:boxes', len(boxes))
        rep.extra.setdefault('family_seconds', {})[tag] = round(time.time() - t1, 1)


def finish(rep, acc, tier, t0):
    # fixed corpus: all boxes on -1..5 of a small sample + scalars on every element
    cb = box_mix(rep.rng, U.boxes_pos(-1, 5)[::3], U.boxes_degenerate(-1, 5), 30)
    for kind, els in CORPUS:
        run_family(rep, acc, kind, els, cb, 'corpus', [None], chunk=64, batch=200, scalar_boxes=40,
                   oracle_stride=1, classify_stride=0)
    rep.extra['impl_seconds'] = round(time.time() - t0, 1)
    t0 = time.time()
    rep.extra['coq_cases'] = acc.ncases
    bad = acc.collect()
    for item in [x for x in bad if x[3].get('form') == 'scalar'] + \
            [x for x in bad if x[3].get('form') != 'scalar'][:3 * MAXV]:
        explain(rep, *item)
    rep.extra['coq_seconds'] = round(time.time() - t0, 1)
    rep.extra['element_box_pairs'] = rep._c01_pairs
    rep.extra['scalar_calls'] = rep._c01_scalar
    rep.extra['oracle_comparisons'] = rep._c01_oracle
    rep.extra['violation_counts'] = dict(rep._c01_nviol)


def random_stream(rep, acc, tier):
    rng = rep.rng
    narr = 4 if tier == 'quick' else 60
    for kind in G.KINDS:
        for st in G.SUBTYPES:
            for _ in range(narr):
                n = rng.choice([1, 2, 3, 5, 8, 13])
                els = G.rand_elements(rng, kind, n, lo=0, hi=6, nan_p=0.0, nmax=5)
                try:
                    arr = G.make_array(kind, els, st)
                except Exception as e:
                    rep.count('construct_error:' + type(e).__name__)
                    continue
                arr, desc = G.derive(rng, arr)
                desc = [list(d) for d in desc]
                logical = U.apply_logical(els, desc)
                if len(arr) != len(logical):
                    viol(rep, f'derive-length:{kind}', 'derived array has an unexpected length',
                         {'kind': kind, 'elements': els, 'derivation': desc})
                    continue
                if len(arr) == 0:
                    rep.count('random_empty_array')
                boxes = [tuple(rng.randint(-1, 7) for _ in range(4)) for _ in range(30)]
                boxes += [U.orient(b) for b in boxes[:10]]
                random_case(rep, acc, kind, st, els, desc, arr, logical, boxes)


def band_configs(rng, n):
    """near-tie configurations at the top of the property's coordinate range: a segment A-B
    through a box corner P (touching only), all coordinates multiples of 4, |coord| <= 2^25;
    -> [(A, B, C, [touching box, box moved off by one step in x, in y, box moved in by a step])]
    with C a third vertex on the side of AB away from the box"""
    LIM = 2 ** 25
    out = []
    while len(out) < n:
        sx, sy = rng.choice([(1, 1), (1, -1), (-1, 1), (-1, -1)])   # quadrant of the box seen from P
        big = rng.random() < .7
        m = 2 ** 11 if not big else 2 ** 20
        u, v = 4 * rng.randint(1, m), 4 * rng.randint(1, m)
        # direction of the line: perpendicular-ish to the quadrant diagonal, so that it only touches
        d = (u * sx, -v * sy)
        px, py = 4 * rng.randint(-2 ** 22, 2 ** 22), 4 * rng.randint(-2 ** 22, 2 ** 22)
        s, t = rng.randint(1, 8), rng.randint(1, 8)
        A = (px - s * d[0], py - s * d[1])
        B = (px + t * d[0], py + t * d[1])
        w, h = 4 * rng.randint(1, 2 ** 18), 4 * rng.randint(1, 2 ** 18)
        C = (px - sx * 4 * rng.randint(1, 2 ** 20), py - sy * 4 * rng.randint(1, 2 ** 20))
        pts = [A, B, C, (px + sx * w, py + sy * h)]
        if any(abs(c) > LIM for p in pts for c in p):
            continue

        def bx(ox, oy):
            return (px + ox, py + oy, px + ox + sx * w, py + oy + sy * h)
        boxes = [bx(0, 0), bx(4 * sx, 0), bx(0, 4 * sy), bx(-4 * sx, -4 * sy)]
        out.append((A, B, C, boxes))
    return out


def band_stream(rep, acc, tier):
    """the large-coordinate band: the same values as float64 / float32 / int64 / int32 arrays must
    all agree with the exact model (and oracle); a float32-only difference is the class
    'float32-kernel-rounding'"""
    rng = rep.rng
    ncfg = 16 if tier == 'quick' else 48
    for rnd in range(2 if tier == 'quick' else 24):
        cfgs = band_configs(rng, ncfg)
        boxes = [b for c in cfgs for b in c[3]]
        boxes += [U.reorder(b, 1 + k % 3) for k, b in enumerate(boxes[::5])]
        fam = {'line': [U.flat([A, B]) for A, B, C, _ in cfgs] + [None, []],
               'ring': [U.flat([A, B, C, A]) for A, B, C, _ in cfgs],
               'multiline': [[U.flat([C, A]), U.flat([A, B])] for A, B, C, _ in cfgs],
               'polygon': [[U.flat([A, B, C, A])] for A, B, C, _ in cfgs] + [None, []],
               'multipolygon': [[[U.flat([B, A, C, B])]] for A, B, C, _ in cfgs],
               'multipoint': [U.flat([A, (b[0], b[1]), B]) for A, B, C, bs in cfgs for b in bs[:1]],
               'point': [[b[0], b[1]] for A, B, C, bs in cfgs for b in bs[:2]]}
        for kind, els in fam.items():
            n = len(els)
            inds = [rng.randrange(n) for _ in range(5)]
            base = None
            for st in ('float64', 'float32', 'int64', 'int32'):
                # pyarrow refuses Python ints above 2^24 for a float32 array even when they are exactly
                # representable: hand it floats
                arr = G.make_array(kind, U.to_float(els) if st.startswith('float') else els, st)
                rec = C.Raw(C.coq(export(kind, arr)))
                meta = {'kind': kind, 'subtype': st, 'elements': els, 'derivation': [], 'inds': inds,
                        'family': 'band-2^25', 'boxes': [list(b) for b in boxes], 'both': False}
                results, raw = [], []
                for b in boxes:
                    r1, _ = impl_array(arr, b, None)
                    if isinstance(r1, tuple):
                        viol(rep, f'raises:{kind}:array', f'{kind} intersects_bounds raised {r1[1]}: {r1[2]}',
                             {**meta, 'box': list(b)})
                        results.append(None)
                        raw.append(None)
                        continue
                    results.append(C.Some(U.pack_np(r1)))
                    raw.append(r1)
                    rep._c01_pairs += n
                if base is None:
                    base = raw
                    for b, r1 in zip(boxes, raw):
                        ob = U.orient(b)
                        if r1 is None:
                            continue
                        for i in range(n):
                            check_oracle(rep, kind, els[i], b, bool(r1[i]), ob[0] == ob[2] or ob[1] == ob[3],
                                         meta, i)
                            rep.count('band:touching' if b in [c[3][0] for c in cfgs[i:i + 1]] else 'band:other')
                else:
                    for b, r0, r1 in zip(boxes, base, raw):
                        if r0 is not None and r1 is not None and not np.array_equal(r0, r1):
                            i = int(np.nonzero(r0 != r1)[0][0])
                            sig = 'float32-kernel-rounding' if st == 'float32' else f'subtype-differs:{kind}:{st}'
                            viol(rep, sig, f'{kind}: the {st} array answers differently from the float64 array '
                                 f'of the same (exactly representable) values',
                                 {**meta, 'box': list(b), 'index': i, 'element': els[i],
                                  'float64': bool(r0[i]), st: bool(r1[i]),
                                  'repro': f'{G.array_class(kind).__name__}([{els[i]!r}], dtype={st!r})'
                                           f'.intersects_bounds({tuple(b)!r})'})
                acc.add(f'run_array1_packed {MODEL_FN[kind]}', arr1_ty(kind), 'list (option Z)',
                        (rec, U.boxes_raw(boxes)), results, meta, Acc.COST[kind] * n * len(boxes))
                rep.evaluations += 1
                rep.count(f'cases:{kind}')
                rep.count(f'band_cases:{st}')
                if any(r is not None and 1 < bin(r.v).count('1') <= n for r in results):
                    rep.nontrivial((kind, st, 'band', rnd))


def egcd(a, b):
    if b == 0:
        return a, 1, 0
    g, x, y = egcd(b, a % b)
    return g, y, x - (a // b) * y


def tie_configs(rng, n):
    """near ties whose deciding cross product has factors > 2^12, so that it is inexact in float32
    although every coordinate is an integer below 2^23 (exact in every subtype and box type):
    a segment A -> B = A + 2(u, v) and a box with one corner P such that (B - A) x (P - A) is
    0 (touching), +-1 on the box's side (a miss by a hair) or -+1 (a hair inside);
    -> (A, B, C, [boxes]) with C a third vertex on the side away from the box"""
    out = []
    while len(out) < n:
        u, v = rng.randint(2 ** 12, 2 ** 13), rng.randint(2 ** 12, 2 ** 13)
        g, xx, yy = egcd(u, v)            # u*xx + v*yy = 1
        if g != 1:
            continue
        ax, ay = rng.randint(-2 ** 20, 2 ** 20), rng.randint(-2 ** 20, 2 ** 20)
        side = rng.choice([1, -1])         # +1: box left/above the ascending line, -1: right/below
        boxes = []
        for c in (0, side, -side):
            # (px, py) with u*py - v*px = c, near the middle of the segment
            px, py = -yy * c, xx * c
            t = (u - px) // u if u else 0
            px, py = px + t * u + (u if c == 0 else 0) * 0, py + t * v
            k = rng.randint(0, 1)
            px, py = px + k * u, py + k * v
            assert u * py - v * px == c and 0 <= px <= 2 * u
            w, h = rng.randint(1, 2 ** 12), rng.randint(1, 2 ** 12)
            P = (ax + px, ay + py)
            boxes.append((P[0] - w, P[1], P[0], P[1] + h) if side == 1 else (P[0], P[1] - h, P[0] + w, P[1]))
        A, B = (ax, ay), (ax + 2 * u, ay + 2 * v)
        C = (B[0], A[1]) if side == 1 else (A[0], B[1])
        out.append((A, B, C, boxes))
    return out


def boxtype_stream(rep, acc, tier):
    """the box ARGUMENT TYPE as a dimension, on near ties that float32 arithmetic cannot decide:
    every array wrapper (array and at-inds form) and every scalar form is called with the same box as
    Python ints / floats, numpy float32 / float64 / int32 / int64 scalars, float32 / float64 / int64
    ndarrays and a mixed tuple, on float32, int32, int64 and float64 arrays; all must give the
    answer of the exact model"""
    rng = rep.rng
    ncfg = 10 if tier == 'quick' else 40
    for rnd in range(2 if tier == 'quick' else 10):
        cfgs = tie_configs(rng, ncfg)
        boxes = [b for c in cfgs for b in c[3]]
        boxes += [U.reorder(b, 1 + k % 3) for k, b in enumerate(boxes[::4])]
        fam = {'line': [U.flat([A, B]) for A, B, C, _ in cfgs],
               'ring': [U.flat([A, B, C, A]) for A, B, C, _ in cfgs],
               'multiline': [[U.flat([C, A]), U.flat([A, B])] for A, B, C, _ in cfgs],
               'polygon': [[U.flat([A, B, C, A])] for A, B, C, _ in cfgs],
               'multipolygon': [[[U.flat([B, A, C, B])]] for A, B, C, _ in cfgs],
               'multipoint': [U.flat([A, (b[2], b[1]), B]) for A, B, C, bs in cfgs for b in bs[:1]],
               'point': [[b[2], b[1]] for A, B, C, bs in cfgs for b in bs[:2]]}
        for kind, els in fam.items():
            n = len(els)
            inds = [rng.randrange(n) for _ in range(n + 2)]
            inds_np = np.array(inds, dtype='int64')
            for st in ('float32', 'int32', 'int64', 'float64'):
                arr = G.make_array(kind, U.to_float(els) if st.startswith('float') else els, st)
                rec = C.Raw(C.coq(export(kind, arr)))
                meta = {'kind': kind, 'subtype': st, 'elements': els, 'derivation': [], 'inds': inds,
                        'family': 'box-argument-types', 'boxes': [list(b) for b in boxes], 'both': True,
                        'qscale': 1}
                base = None
                for bt in U.BOXTYPES:
                    raw = []
                    for b in boxes:
                        r1, r2 = impl_array(arr, U.boxarg(b, bt), inds_np)
                        for form, r in (('array', r1), ('inds', r2)):
                            if isinstance(r, tuple):
                                viol(rep, f'raises:{kind}:{form}', f'{kind} intersects_bounds ({form} form) raised '
                                     f'{r[1]}: {r[2]} for a box given as {bt}',
                                     {**meta, 'box': list(b), 'box_type': bt})
                        raw.append((None if isinstance(r1, tuple) else r1, None if isinstance(r2, tuple) else r2))
                        rep._c01_pairs += n
                    rep.count(f'box_type:{bt}', len(boxes))
                    if base is None:
                        base = raw
                        continue
                    for b, (a1, a2), (c1, c2) in zip(boxes, base, raw):
                        for form, x, y in (('array', a1, c1), ('inds', a2, c2)):
                            if x is not None and y is not None and not np.array_equal(x, y):
                                i = int(np.nonzero(x != y)[0][0])
                                viol(rep, f'box-type-differs:{kind}',
                                     f'{kind} ({st}, {form} form): a box given as {bt} is answered differently from '
                                     f'the same box given as Python ints',
                                     {**meta, 'box': list(b), 'box_type': bt, 'form': form, 'position': i,
                                      'as_python_ints': x.tolist(), 'as_' + bt: y.tolist(),
                                      'repro': f'{G.array_class(kind).__name__}(<elements>, dtype={st!r})'
                                               f'.intersects_bounds(U.boxarg({tuple(b)!r}, {bt!r}))'})
                # the Python-int answers against the model (kernel) and the oracle
                results = []
                for b, (a1, a2) in zip(boxes, base):
                    results.append((None if a1 is None else C.Some(U.pack_np(a1)),
                                    None if a2 is None else C.Some(U.pack_np(a2))))
                    ob = U.orient(b)
                    if a1 is not None:
                        for i in range(n):
                            check_oracle(rep, kind, els[i], b, bool(a1[i]), ob[0] == ob[2] or ob[1] == ob[3],
                                         {**meta, 'box_type': 'tuple-int'}, i)
                acc.add(f'run_array_packed {MODEL_FN[kind]}', arr_ty(kind), ARR_RES_TY,
                        (rec, [C.Nat(i) for i in inds], U.boxes_raw(boxes)), results,
                        {**meta, 'box_type': 'tuple-int'}, 2 * Acc.COST[kind] * n * len(boxes))
                rep.evaluations += 1
                rep.count(f'cases:{kind}')
                rep.count('box_type_cases')
                if any(r[0] is not None and 1 < bin(r[0].v).count('1') <= n for r in results):
                    rep.nontrivial((kind, st, 'boxtypes', rnd))
                # scalar forms: each element against its own three boxes, every box type
                for i in range(n):
                    try:
                        el = arr[i]
                    except Exception as e:
                        rep.count(f'scalar_unbuildable:{kind}:{type(e).__name__}')
                        continue
                    if el is None:
                        continue
                    own = boxes[3 * (i % len(cfgs)):3 * (i % len(cfgs)) + 3]
                    for b in own:
                        want = base[boxes.index(b)][0]
                        for bt in U.BOXTYPES:
                            g = impl_scalar(el, U.boxarg(b, bt))
                            rep._c01_scalar += 1
                            if isinstance(g, tuple):
                                viol(rep, f'scalar-raises:{kind}:nonempty',
                                     f'{kind} scalar intersects_bounds raised {g[1]}: {g[2]} for a box given as {bt}',
                                     {'kind': kind, 'subtype': st, 'element': els[i], 'box': list(b), 'box_type': bt})
                            elif want is not None and g != bool(want[i]):
                                viol(rep, f'forms-differ:{kind}:scalar',
                                     f'{kind}: scalar intersects_bounds (box given as {bt}) differs from the array form',
                                     {'kind': kind, 'subtype': st, 'element': els[i], 'box': list(b), 'box_type': bt,
                                      'scalar': g, 'array': bool(want[i]),
                                      'repro': f'{G.array_class(kind).__name__}([{els[i]!r}], dtype={st!r})[0]'
                                               f'.intersects_bounds(U.boxarg({tuple(b)!r}, {bt!r}))'})


def random_case(rep, acc, kind, st, els, desc, arr, logical, boxes):
    rng = rep.rng
    n = len(arr)
    inds = [rng.randrange(n) for _ in range(rng.randint(0, n + 2))] if n else []
    inds_np = np.array(inds, dtype='int64')
    try:
        rec = export(kind, arr)
    except ValueError:
        rep.count('null_typed_skipped')
        return
    meta = {'kind': kind, 'subtype': st, 'elements': els, 'derivation': desc, 'inds': inds,
            'family': 'random', 'boxes': [list(b) for b in boxes]}
    results = []
    for b in boxes:
        r1, r2 = impl_array(arr, b, inds_np)
        for form, r in (('array', r1), ('inds', r2)):
            if isinstance(r, tuple):
                viol(rep, f'raises:{kind}:{form}', f'{kind} intersects_bounds ({form} form) raised {r[1]}: {r[2]}',
                     {**meta, 'box': list(b), 'impl': list(r)})
        ok1, ok2 = not isinstance(r1, tuple), not isinstance(r2, tuple)
        results.append((opt(U.pack_np(r1)) if ok1 else None, opt(U.pack_np(r2)) if ok2 else None))
        if ok1 and ok2 and not np.array_equal(r1[inds_np] if n else r1[:0], r2):
            viol(rep, f'forms-differ:{kind}:inds',
                 f'{kind}: intersects_bounds(box, inds) differs from intersects_bounds(box)[inds]',
                 {**meta, 'box': list(b), 'array_form': r1.tolist(), 'inds_form': r2.tolist()})
        if ok1:
            rep._c01_pairs += n
            for i, e in enumerate(logical):
                if (e is None or len(e) == 0) and r1[i]:
                    viol(rep, f'inert-true:{kind}', f'{kind}: a missing/empty element is reported as intersecting',
                         {**meta, 'box': list(b), 'index': i})
            # scalar form of a few elements
            if kind != 'point':
                for i in range(n):
                    if (i + len(results)) % 5:
                        continue
                    try:
                        el = arr[i]
                    except Exception as e:
                        rep.count(f'scalar_unbuildable:{kind}:{type(e).__name__}')
                        continue
                    if el is None:
                        continue
                    g = impl_scalar(el, b)
                    rep._c01_scalar += 1
                    if isinstance(g, tuple):
                        viol(rep, f'scalar-raises:{kind}:' + ('empty' if len(logical[i]) == 0 else 'nonempty'),
                             f'{kind} scalar intersects_bounds raised {g[1]}: {g[2]}',
                             {**meta, 'index': i, 'element': logical[i], 'box': list(b)})
                    elif g != bool(r1[i]):
                        viol(rep, f'forms-differ:{kind}:scalar',
                             f'{kind}: scalar intersects_bounds differs from the array form',
                             {**meta, 'index': i, 'element': logical[i], 'box': list(b), 'scalar': g,
                              'array': bool(r1[i])})
    acc.add(f'run_array_packed {MODEL_FN[kind]}', arr_ty(kind), ARR_RES_TY,
            (rec, [C.Nat(i) for i in inds], U.boxes_raw(boxes)), results, meta,
            2 * Acc.COST[kind] * max(n, 1) * len(boxes))
    meta['both'] = True
    rep.evaluations += 1
    rep.count(f'cases:{kind}')
    rep.count('random_cases')
    if desc:
        rep.count('derived_buffers')
    if any(r[0] is not None and 1 < bin(r[0].v).count('1') <= n for r in results):
        rep.nontrivial((kind, st, 'random', repr(rec)))


# ----------------------------------------------------------------------------
# a mismatch reported by the kernel: find the box / element / form
# ----------------------------------------------------------------------------
def parse_pairs(text):
    out = []
    for m in re.finditer(r'\((Some (\d+)|None), (Some (\d+)|None)\)', text):
        out.append((int(m.group(2)) if m.group(2) else None, int(m.group(4)) if m.group(4) else None))
    return out


def explain(rep, fn, case, result, meta):
    kind = meta['kind']
    if meta.get('form') == 'scalar':
        # the scalar answers were compared with the array form directly (a difference there is the
        # violation 'forms-differ:<kind>:scalar'); a difference between the scalar wrapper's MODEL on
        # the scalar's internal buffers and the library only says that the internal buffer layout is
        # no longer the one Model/Intersect.v transcribes: counted, reported in the evidence, no alarm
        rep.count(f'internal-unavailable:scalar-buffer-layout:{kind}')
        rep.extra.setdefault('scalar_model_differences', []).append(
            {'kind': kind, 'element': meta.get('element'), 'boxes': meta.get('boxes', [])[:3]})
        rep.extra['scalar_model_differences'] = rep.extra['scalar_model_differences'][:10]
        return
    text = C.coq_eval(IMPORTS, f'{fn} {C.coq(case)}', timeout=900)
    boxes = meta['boxes']
    if meta.get('both', True):
        model = parse_pairs(text)
        impl = [(None if a is None else a.v, None if b is None else b.v) for a, b in result]
    else:
        model = [(int(m.group(1)) if m.group(1) else None, None)
                 for m in re.finditer(r'Some (\d+)|None', text)]
        impl = [(None if a is None else a.v, None) for a in result]
    for b, (m1, m2), (i1, i2) in zip(boxes, model, impl):
        for form, m, im in (('array', m1, i1), ('inds', m2, i2)):
            if m != im:
                where = None
                if m is not None and im is not None:
                    mb, ib = U.unpack(m), U.unpack(im)
                    where = [k for k, (x, y) in enumerate(zip(mb, ib)) if x != y][:5]
                mm = {k: v for k, v in meta.items() if k != 'boxes'}
                viol(rep, f'model-differs:{kind}:{form}',
                     f'{kind} intersects_bounds ({form} form) differs from the proven model',
                     {**mm, 'box': b, 'form': form, 'positions': where,
                      'impl': None if im is None else U.unpack(im),
                      'model': None if m is None else U.unpack(m),
                      'repro': repro(kind, meta['elements'], meta['subtype'], meta['derivation'],
                                     [c / meta.get('qscale', 1) for c in b] if meta.get('qscale', 1) != 1 else b,
                                     meta['inds'] if form == 'inds' else None)})
                return
    viol(rep, f'model-differs:{kind}:unlocated', f'{kind}: kernel reported a difference that could not be located',
         {k: v for k, v in meta.items() if k != 'boxes'})


# ----------------------------------------------------------------------------
# replay
# ----------------------------------------------------------------------------
def replay(rep, rp):
    if rp.get('float_kernel'):
        from . import cfloat_util
        return cfloat_util.replay(rep, rp)
    if rp.get('family') == 'inds-forms':
        # deterministic given the seed: run the section again
        rep._c01_nviol = {}
        inds_forms_stream(rep, 'quick' if rp.get('n', 400) == 400 or rp.get('kind') == 'point' else 'thorough')
        for vio in rep.violations:
            print('  ', vio['signature'], '-', vio['what'])
        return not rep.violations
    if rp.get('family') in ('history', 'history-large') and 'history' in rp:
        return replay_history(rep, rp)
    kind = rp['kind']
    q = rp.get('qscale', 1) or 1      # boxes are stored in units of 1/q

    def unq(b):
        return tuple(b) if q == 1 else tuple(c / q for c in b)
    if rp.get('form') == 'scalar' or ('element' in rp and 'elements' not in rp):
        el_list = rp['element']
        arr = G.make_array(kind, [el_list], rp.get('subtype', 'float64'))
        boxes = [tuple(b) for b in (rp.get('boxes') or [rp['box']])]
        el = arr[0]
        ok = True
        for b in boxes:
            a = arr.intersects_bounds(unq(b))[0]
            for bt in ([rp['box_type']] if 'box_type' in rp else U.BOXTYPES):
                g = impl_scalar(el, U.boxarg(unq(b), bt))
                if isinstance(g, tuple) or g != bool(a):
                    print('box', unq(b), 'as', bt, 'scalar:', g, 'array:', bool(a))
                    ok = False
            print('box', unq(b), 'array:', bool(a))
        # the array form of the one-element array against the model (public buffers)
        r1 = [arr.intersects_bounds(unq(b)) for b in boxes]
        case = (export(kind, arr, q), U.boxes_raw(boxes))
        bad = C.coq_mismatches(IMPORTS, f'run_array1_packed {MODEL_FN[kind]}', arr1_ty(kind),
                               'list (option Z)', [case], [[C.Some(U.pack_np(r)) for r in r1]])
        print('array form of the one-element array:', 'model agrees' if not bad else 'model differs')
        ok = ok and not bad
        if kind != 'point':
            try:        # optional extra on the scalar's internal buffers: informative only
                nbuf, srec = U.export_scalar(el, q)
                got = [impl_scalar(el, unq(b)) for b in boxes]
                res = None if any(isinstance(g, tuple) for g in got) else C.Some(U.pack(got))
                fn = f'run_scalar_packed {SCALAR_FN[kind]}'
                bad = C.coq_mismatches(IMPORTS, fn, 'nat * listarr * list box', 'option Z',
                                       [(nbuf, srec, U.boxes_raw(boxes))], [res])
                print('scalar wrapper model on its own buffers:', 'agrees' if not bad else 'differs (internal layout)')
            except Exception as e:
                print('scalar internal buffers not available:', type(e).__name__)
        return ok
    els, st, deriv = rp['elements'], rp['subtype'], [tuple(d) for d in rp.get('derivation', [])]
    arr = U.build(kind, els, st, deriv)
    logical = U.apply_logical(els, deriv)
    boxes = [tuple(rp['box'])] if 'box' in rp else [tuple(b) for b in rp['boxes']]
    if 'other_box' in rp:
        boxes.append(tuple(rp['other_box']))
    inds = rp.get('inds', [])
    inds_np = np.array(inds, dtype='int64')
    results, ok = [], True
    btype = rp.get('box_type', 'tuple-int')
    for b in boxes:
        r1, r2 = impl_array(arr, U.boxarg(unq(b), btype), inds_np)
        ok1, ok2 = not isinstance(r1, tuple), not isinstance(r2, tuple)
        print('box', unq(b), 'as', btype, 'array form:', r1.tolist() if ok1 else r1, 'inds form:', r2.tolist() if ok2 else r2)
        results.append((opt(U.pack_np(r1)) if ok1 else None, opt(U.pack_np(r2)) if ok2 else None))
        ok = ok and ok1 and ok2
        if ok1 and ok2:
            ok = ok and np.array_equal(r1[inds_np] if len(r1) else r1[:0], r2)
        if ok1:
            for i, e in enumerate(logical):
                if (e is None or len(e) == 0) and r1[i]:
                    ok = False
                    print('  missing/empty element', i, 'reported True')
            if 'index' in rp and 'oracle' in rp:
                i = rp['index']
                want = U.oracle(kind, U.scale_el(logical[i], q), b)
                print('  oracle for element', i, ':', want)
                ok = ok and want == bool(r1[i])
    if len(boxes) > 1 and 'other_box' in rp:
        ok = ok and results[0][0] == results[-1][0]
    fn = f'run_array_packed {MODEL_FN[kind]}'
    case = (export(kind, arr, q), [C.Nat(i) for i in inds], U.boxes_raw(boxes))
    bad = C.coq_mismatches(IMPORTS, fn, arr_ty(kind), ARR_RES_TY, [case], [results])
    mt = parse_pairs(C.coq_eval(IMPORTS, f'{fn} {C.coq(case)}'))
    print('model:', [(None if a is None else U.unpack(a), None if b is None else U.unpack(b)) for a, b in mt][:3])
    return ok and not bad
