"""Helpers shared by the C14 (measures) and C15 (oriented) correspondence checks.

* raw-buffer decoding of real arrays (independent of the library's own offset
  arithmetic): `decode`, `view_of`
* export of a scalar geometry's `.listarray` as the model's [listarr]
* exact oracles on decoded elements (integer shoelace, squared segment lengths)
* shape libraries for the small-scope enumerations
* a batch of Coq cases flushed in one kernel evaluation
"""
import itertools
import math

import numpy as np

from . import common as C
from . import geomgen as G

NAN = float('nan')
KIND_CTOR = {'multipoint': 'KMultiPoint', 'line': 'KLine', 'ring': 'KRing',
             'multiline': 'KMultiLine', 'polygon': 'KPolygon', 'multipolygon': 'KMultiPolygon'}


# ---------------------------------------------------------------------------
# raw buffers.  Only PUBLIC observations are used for anything that can raise an alarm:
# `arr.__arrow_array__()` (the pyarrow array of a public geometry array) and its
# .buffers() / .offset / .type.  Private attributes (`.data`, `.listarray`,
# `_nesting_levels`, `buffer_*`) are touched only by the optional internal extras.
# ---------------------------------------------------------------------------
def pa_of(arr):
    """the pyarrow array behind a public geometry array"""
    return arr.__arrow_array__()


def nlevels(pa_arr):
    t, n = pa_arr.type, 0
    while hasattr(t, 'value_type'):
        t, n = t.value_type, n + 1
    return n


def is_null_typed(pa_arr):
    t = pa_arr.type
    while hasattr(t, 'value_type'):
        t = t.value_type
    return str(t) == 'null'


def _levels(pa_arr):
    """(validity bits or None, [offsets arrays], values array or None) of a pyarrow
    (nested) list array or plain numeric array, read from buffers()"""
    bufs = pa_arr.buffers()
    nb = len(bufs)
    if nb < 2:      # null-typed
        return None, [], None
    offs = [np.frombuffer(bufs[i], dtype=np.uint32) if bufs[i] is not None
            else np.array([0], dtype=np.uint32) for i in range(1, nb - 1, 2)]
    return bufs[0], offs, bufs[-1]


def _value_dtype(pa_arr):
    t = pa_arr.type
    while hasattr(t, 'value_type'):
        t = t.value_type
    if str(t) == 'null':
        return None
    return np.dtype(t.to_pandas_dtype())


def _vals(pa_arr):
    _, _, vb = _levels(pa_arr)
    dt = _value_dtype(pa_arr)
    if vb is None or dt is None:
        return np.array([], dtype='float64')
    return np.frombuffer(vb, dtype=dt)


def _pyval(v):
    if isinstance(v, (np.floating, float)):
        f = float(v)
        return int(f) if math.isfinite(f) and f == int(f) else f
    return int(v)


def _nums(vals):
    isf = np.issubdtype(vals.dtype, np.floating)
    return [C.num(float(v)) if isf else C.Some(int(v)) for v in vals]


def decode(arr):
    """elements of a public list-backed geometry array as nested Python lists
    (None = missing), decoded from the raw buffers of arr.__arrow_array__()"""
    data = pa_of(arr)
    vb, offs, _ = _levels(data)
    if not offs:
        return [None if not data[i].is_valid else data[i].as_py() for i in range(len(data))]
    vals = _vals(data)
    bits = C._bits(vb, data.offset + len(data))

    def rec(level, lo, hi):
        if level == len(offs):
            return [_pyval(v) for v in vals[lo:hi]]
        o = offs[level]
        return [rec(level + 1, int(o[j]), int(o[j + 1])) for j in range(lo, hi)]
    out = []
    for i in range(len(data)):
        s = data.offset + i
        if bits is not None and not bits[s]:
            out.append(None)
        else:
            out.append(rec(0, s, s + 1)[0])
    return out


def _trim(offs, need):
    trimmed = []
    for o in offs:
        o = [C.Nat(int(x)) for x in (o[:need + 1] if len(o) > need + 1 else o)]
        trimmed.append(o)
        need = int(o[-1]) if o else 0
    return trimmed, need


def export_la(arr):
    """buffers of a public list-backed geometry array as the model's [listarr] (trailing
    padding of each buffer trimmed to what the level above can reach).
    Raises ValueError for null-typed arrays (not modelled)."""
    data = pa_of(arr)
    vb, offs, _ = _levels(data)
    if not offs or is_null_typed(data):
        raise ValueError('null-typed array: not modelled')
    off, n = data.offset, len(data)
    bits = C._bits(vb, off + n)
    trimmed, need = _trim(offs, off + n)
    return C.Rec('Build_listarr', C.Nat(off), C.Nat(n), None if bits is None else C.Some(bits),
                 trimmed, _nums(_vals(data)[:need]))


def view_of(arr):
    """(isna, offsets per level with the first sliced, values) of a real array with the
    same trimming as export_la -- buffer LAYOUT, used only by optional internal extras"""
    data = pa_of(arr)
    vb, offs, _ = _levels(data)
    off, n = data.offset, len(data)
    bits = C._bits(vb, off + n)
    isna = [False if bits is None else (not bits[off + i]) for i in range(n)]
    trimmed, need = _trim(offs, off + n)
    trimmed[0] = trimmed[0][off:off + n + 1]
    return (isna, trimmed, _nums(_vals(data)[:need]))


def export_scalar_internal(e):
    """OPTIONAL internal extra: the private `.listarray` of a scalar geometry as [listarr].
    A plain numeric values array has no offsets level; a null-typed one is what the mixin
    turns into offsets (np.array([0]),)."""
    la = e.listarray
    vb, offs, _ = _levels(la)
    off, n = la.offset, len(la)
    if not offs:
        if str(la.type) == 'null':
            return C.Rec('Build_listarr', C.Nat(0), C.Nat(0), None, [[C.Nat(0)]], [])
        return C.Rec('Build_listarr', C.Nat(off), C.Nat(n), None, [], _nums(_vals(la)))
    trimmed, need = _trim(offs, off + n)
    bits = C._bits(vb, off + n)
    return C.Rec('Build_listarr', C.Nat(off), C.Nat(n), None if bits is None else C.Some(bits),
                 trimmed, _nums(_vals(la)[:need]))


def _num_of(v):
    return C.num(float(v)) if isinstance(v, float) else C.Some(int(v))


def _offs_from(lists):
    out, s = [C.Nat(0)], 0
    for l in lists:
        s += len(l)
        out.append(C.Nat(s))
    return out


def fresh_scalar(kind, el):
    """the element's own nested lists encoded with offsets starting at 0 (Coq: fresh1/2/3
    of Proofs/MeasuresScalarProofs.v) -- what a scalar of this element holds, whatever the
    library's internal representation of scalars is"""
    lev = G.LEVELS[kind]
    if lev == 1:
        return C.Rec('Build_listarr', C.Nat(0), C.Nat(len(el)), None, [], [_num_of(v) for v in el])
    if lev == 2:
        flat_ = [v for r in el for v in r]
        return C.Rec('Build_listarr', C.Nat(0), C.Nat(len(el)), None, [_offs_from(el)],
                     [_num_of(v) for v in flat_])
    rings = [r for part in el for r in part]
    flat_ = [v for r in rings for v in r]
    return C.Rec('Build_listarr', C.Nat(0), C.Nat(len(el)), None,
                 [_offs_from(el), _offs_from(rings)], [_num_of(v) for v in flat_])


def coq_decoded(kind, dec):
    """decoded elements in the shape of Coq's decode_elems: None / Some [parts of rings]"""
    out = []
    for d in dec:
        if d is None:
            out.append(None)
        else:
            parts = d if G.LEVELS[kind] == 3 else [rings_of(kind, d)]
            out.append(C.Some([[[_num_of(v) for v in r] for r in part] for part in parts]))
    return out


def buffers_bytes(arr):
    """bytes of every buffer of the array (to show that a call did not write to them)"""
    return [None if b is None else b.to_pybytes() for b in pa_of(arr).buffers()]


# ---------------------------------------------------------------------------
# exact oracles on decoded elements
# ---------------------------------------------------------------------------
def rings_of(kind, el):
    """the innermost coordinate lists of a decoded element, in buffer order"""
    if el is None:
        return None
    lev = G.LEVELS[kind]
    if lev == 1:
        return [el]
    if lev == 2:
        return list(el)
    return [r for part in el for r in part]


def _fin(v):
    return isinstance(v, int) or math.isfinite(v)


def sq_terms(ring):
    """squared lengths of the consecutive-vertex segments with both ends finite"""
    pts = list(zip(ring[0::2], ring[1::2]))
    out = []
    for (x0, y0), (x1, y1) in zip(pts, pts[1:]):
        if _fin(x0) and _fin(y0) and _fin(x1) and _fin(y1):
            out.append(int((x1 - x0) ** 2 + (y1 - y0) ** 2))
    return out


def is_square(t):
    r = math.isqrt(t)
    return r * r == t


def shoelace2(ring):
    """twice the signed area of a closed ring of finite vertices: sum x_i*y_{i+1} - x_{i+1}*y_i"""
    pts = list(zip(ring[0::2], ring[1::2]))
    return sum(int(a[0] * b[1] - b[0] * a[1]) for a, b in zip(pts, pts[1:]))


def closed_finite(ring):
    return all(_fin(v) for v in ring) and (len(ring) < 2 or ring[:2] == ring[-2:])


def translate(el, dx, dy):
    if el is None:
        return None
    if el and isinstance(el[0], list):
        return [translate(x, dx, dy) for x in el]
    if el and not isinstance(el[0], list):
        return [v + (dx if i % 2 == 0 else dy) for i, v in enumerate(el)]
    return list(el)


# ---------------------------------------------------------------------------
# shape libraries
# ---------------------------------------------------------------------------
def flat(pts):
    return [c for p in pts for c in p]


def ring_library(with_nan=False):
    """rings with 0..5 vertices: empty, <3 vertices, closed degenerate, collinear
    (zero area), triangles and quads of both windings, unclosed, Pythagorean /
    axis-parallel (perfect-square segments) and generic"""
    tri = [(0, 0), (3, 0), (3, 4), (0, 0)]            # 3-4-5, ccw, doubled area 12
    quad = [(0, 0), (2, 0), (2, 2), (0, 2), (0, 0)]   # axis-parallel, ccw
    gen = [(0, 0), (2, 1), (1, 3), (0, 0)]            # generic, ccw
    genq = [(1, 0), (3, 1), (2, 3), (0, 2), (1, 0)]   # generic quad ccw
    lib = [
        [],                                           # 0 vertices
        flat([(1, 2)]),                               # 1 vertex
        flat([(1, 1), (2, 3)]),                       # 2 vertices
        flat([(1, 1), (1, 1)]),                       # 2 equal vertices
        flat([(0, 0), (2, 1), (0, 0)]),               # closed, 3 vertices, zero area
        flat([(0, 0), (1, 1), (2, 2), (0, 0)]),       # collinear closed ring
        flat([(1, 1), (2, 2), (3, 3), (1, 1)]),       # the D6 ring
        flat([(0, 0), (4, 0), (2, 0), (1, 0), (0, 0)]),   # collinear, 5 vertices
        flat(tri), flat(tri[::-1]),
        flat(quad), flat(quad[::-1]),
        flat(gen), flat(gen[::-1]),
        flat(genq), flat(genq[::-1]),
        flat([(0, 0), (2, 0), (1, 2)]),               # unclosed triangle (3 vertices)
        flat([(0, 0), (2, 0), (2, 2), (0, 3)]),       # unclosed quad
        flat([(0, 0), (2, 2), (2, 0), (0, 2), (0, 0)]),   # bow-tie, zero total area
    ]
    if with_nan:
        lib += [
            flat([(0, 0), (NAN, 0), (3, 4), (0, 0)]),
            flat([(NAN, NAN), (3, 0), (3, 4), (0, 0)]),
            flat([(0, 0), (3, 0), (3, 4), (NAN, 0)]),     # NaN in the unread last x
            flat([(0, 0), (3, 0), (3, NAN), (0, 4), (0, 0)]),
            flat([(NAN, 1)]),
            flat([(1, 1), (2, NAN)]),
        ]
    return lib


def line_library(with_nan=False):
    """lines with 0..5 vertices; with_nan: every pattern of {ok, x NaN, y NaN, both NaN}
    over the vertices of short paths ("a NaN vertex breaks the line")"""
    paths = [
        [], [(1, 2)], [(0, 0), (3, 4)], [(0, 0), (1, 1)], [(1, 1), (1, 1)],
        [(0, 0), (3, 0), (3, 4)], [(0, 0), (1, 2), (3, 3)],
        [(0, 0), (0, 5), (12, 0), (12, 5)], [(0, 0), (1, 0), (1, 1), (0, 1), (0, 0)],
        [(2, 1), (0, 0), (1, 3), (4, 4), (2, 1)],
    ]
    lib = [flat(p) for p in paths]
    if with_nan:
        for p in ([(0, 0), (3, 4)], [(0, 0), (3, 0), (3, 4)], [(0, 0), (0, 5), (12, 0), (12, 5)],
                  [(0, 0), (1, 2), (3, 3), (4, 0)]):
            for pat in itertools.product(range(4), repeat=len(p)):
                if not any(pat):
                    continue
                lib.append(flat([(NAN if m & 1 else x, NAN if m & 2 else y)
                                 for (x, y), m in zip(p, pat)]))
    return lib


# ---------------------------------------------------------------------------
# batches of Coq cases
# ---------------------------------------------------------------------------
class Batch:
    """cases evaluated by the Coq kernel in one go.  internal=<label>: an OPTIONAL extra about
    something that is not public behaviour (buffer layout, private attributes): a
    disagreement is counted as internal-differs-public-agrees:<label>, never reported."""

    def __init__(self, imports, fn, case_ty, res_ty, internal=None):
        self.imports, self.fn, self.case_ty, self.res_ty = imports, fn, case_ty, res_ty
        self.cases, self.results, self.metas = [], [], []
        self.internal = internal

    def add(self, case, result, signature, what, meta):
        self.cases.append(case)
        self.results.append(result)
        self.metas.append((signature, what, meta))

    def flush(self, rep, explain=8):
        if self.internal:
            try:
                bad = C.coq_mismatches(self.imports, self.fn, self.case_ty, self.res_ty,
                                       self.cases, self.results)
            except C.ModelUnavailable:
                rep.count(f'internal-unavailable:{self.internal}')
                return 0
            rep.count(f'internal-checked:{self.internal}', len(self.cases))
            if bad:
                rep.count(f'internal-differs-public-agrees:{self.internal}', len(bad))
            return 0
        bad = C.coq_mismatches(self.imports, self.fn, self.case_ty, self.res_ty,
                               self.cases, self.results)
        for n, i in enumerate(bad):
            sig, what, meta = self.metas[i]
            model = None
            if n < explain:
                model = C.coq_eval(self.imports, f'({self.fn}) {C.coq(self.cases[i])}')
            rep.violation(sig, what, {**meta, 'buffers': self.cases[i], 'impl': self.results[i],
                                      'model': model})
        return len(bad)


def rebuild(kind, st, els, desc):
    """the array of a replay: construct then re-apply the recorded derivation"""
    arr = G.make_array(kind, els, st)
    for d in desc or []:
        if d[0] == 'slice':
            arr = arr[d[1]:d[2]]
        elif d[0] == 'take':
            arr = arr.take(np.array(d[1], dtype='int64'))
        elif d[0] == 'rotate':
            arr = type(arr)._concat_same_type([arr[d[1]:], arr[:d[1]]])
        elif d[0] == 'mask':
            arr = arr[np.array(d[1], dtype=bool)]
        elif d[0] == 'rev':
            arr = arr[::-1]
    return arr


def unjson(e):
    """replay JSON -> elements ('nan' strings back to floats)"""
    if isinstance(e, list):
        return [unjson(x) for x in e]
    if isinstance(e, str):
        return float(e)
    return e


def _nan_eq(a, b):
    """structural equality of decoded elements with NaN == NaN"""
    if isinstance(a, list) and isinstance(b, list):
        return len(a) == len(b) and all(_nan_eq(x, y) for x, y in zip(a, b))
    if a is None or b is None or isinstance(a, list) or isinstance(b, list):
        return a is None and b is None
    fa, fb = float(a), float(b)
    return fa == fb or (math.isnan(fa) and math.isnan(fb))
