"""Shared machinery of the correspondence checks.

* serialise Python values as Gallina terms, export real pyarrow buffers
* evaluate the Coq model on the cases *inside the kernel* (coqc + vm_compute),
  sharded over all cores, and get back the positions where the model's result
  differs from what the implementation returned
* proof-obligation bookkeeping (compile Properties/Cxx.v, parse Print Assumptions)
* evidence / replay / known-findings plumbing
"""
import concurrent.futures as cf
import hashlib
import json
import math
import os
import random
import re
import shutil
import subprocess
import sys
import tempfile
import time

VERIF = os.path.dirname(os.path.dirname(os.path.abspath(__file__)))
COQ = os.path.join(VERIF, 'coq')
REPO = os.environ.get('VERIF_REPO', '/repo')
NCPU = os.cpu_count() or 4

# axioms of the standard library that theorems over R may depend on (DESIGN §6)
ALLOWED_AXIOMS = {
    'ClassicalDedekindReals.sig_forall_dec',
    'ClassicalDedekindReals.sig_not_dec',
    'FunctionalExtensionality.functional_extensionality_dep',
    'functional_extensionality_dep',
    'sig_forall_dec', 'sig_not_dec',
    'Classical_Prop.classic', 'classic',
}
# Names that Print Assumptions lists under "Axioms:" for developments over primitive floats /
# 63-bit integers: the kernel's primitive types and operations (PrimFloat.*, PrimInt63.*) and
# the specifications of them that the STANDARD LIBRARY itself declares as axioms
# (Coq.Floats.FloatAxioms: Prim2SF_valid, SF2Prim_Prim2SF, Prim2SF_SF2Prim, add_spec, …;
# Coq.Numbers.Cyclic.Int63.Uint63: of_to_Z, add_spec, lsl_spec, …).  They are accepted by the
# module that declares them (scan_forbidden() guarantees the development declares none itself)
# and are named in the trusted base of every property that uses them.
ALLOWED_AXIOM_MODULES = {'PrimFloat', 'PrimInt63', 'FloatAxioms', 'Uint63'}


def axiom_allowed(a):
    if a in ALLOWED_AXIOMS or a.split('.')[-1] in ALLOWED_AXIOMS:
        return True
    parts = a.split('.')
    return len(parts) >= 2 and parts[-2] in ALLOWED_AXIOM_MODULES


# --------------------------------------------------------------------------
# Gallina terms
# --------------------------------------------------------------------------
class Nat(int):
    """a Python int to be written as a nat literal"""


class Raw(str):
    """verbatim Gallina"""


class Some:
    def __init__(self, v):
        self.v = v

    def __eq__(self, o):
        return isinstance(o, Some) and o.v == self.v

    def __repr__(self):
        return f"Some({self.v!r})"


class Rec:
    """constructor application: Rec('Build_listarr', a, b, c)"""

    def __init__(self, ctor, *args):
        self.ctor = ctor
        self.args = args

    def __repr__(self):
        return f"{self.ctor}{self.args!r}"


def num(x):
    """a coordinate as the model sees it: Some z for a finite integral value,
    None for NaN/inf.  Non-integral finite values must be scaled by the caller."""
    if x is None:
        return None
    xf = float(x)
    if not math.isfinite(xf):
        return None
    if xf != int(xf):
        raise ValueError(f"non-integral coordinate {x!r}: scale first")
    return Some(int(xf))


def coq(v):
    if isinstance(v, Raw):
        return str(v)
    if isinstance(v, bool):
        return 'true' if v else 'false'
    if isinstance(v, Nat):
        return f"{int(v)}%nat"
    if isinstance(v, int):
        return f"({int(v)})%Z"
    if v is None:
        return 'None'
    if isinstance(v, Some):
        return f"(Some {coq(v.v)})"
    if isinstance(v, list):
        return '[' + '; '.join(coq(x) for x in v) + ']'
    if isinstance(v, tuple):
        return '(' + ', '.join(coq(x) for x in v) + ')'
    if isinstance(v, Rec):
        if not v.args:
            return v.ctor
        return '(' + v.ctor + ' ' + ' '.join(coq(x) for x in v.args) + ')'
    if isinstance(v, str):
        return '"' + v.replace('"', '""') + '"%string'
    if isinstance(v, float):
        return coq(num(v))
    try:
        import numpy as np
        if isinstance(v, np.bool_):
            return coq(bool(v))
        if isinstance(v, np.integer):
            return coq(int(v))
        if isinstance(v, np.floating):
            return coq(num(float(v)))
    except ImportError:
        pass
    raise TypeError(f"cannot serialise {type(v)}: {v!r}")


def jsonable(v):
    if isinstance(v, Some):
        return {'Some': jsonable(v.v)}
    if isinstance(v, Rec):
        return {v.ctor: [jsonable(x) for x in v.args]}
    if isinstance(v, (list, tuple)):
        return [jsonable(x) for x in v]
    if isinstance(v, dict):
        return {str(k): jsonable(x) for k, x in v.items()}
    if isinstance(v, (bool, int, str)) or v is None:
        return v
    if isinstance(v, float):
        return v if math.isfinite(v) else repr(v)
    try:
        import numpy as np
        if isinstance(v, np.generic):
            return jsonable(v.item())
        if isinstance(v, np.ndarray):
            return jsonable(v.tolist())
    except ImportError:
        pass
    return repr(v)


# --------------------------------------------------------------------------
# running the model inside Coq
# --------------------------------------------------------------------------
_HEADER = """From Coq Require Import ZArith NArith List Bool String.
From SP Require Import Harness {imports}.
Import ListNotations.
Local Open Scope string_scope.
Set Printing Width 100000.
Set Printing Depth 1000000.
"""


def _workers():
    """parallel coqc processes: all cores, but no more than the available memory carries
    (a case shard needs up to ~0.9 GB)"""
    try:
        for line in open('/proc/meminfo'):
            if line.startswith('MemAvailable:'):
                avail_gb = int(line.split()[1]) / 1e6
                return max(2, min(NCPU, int(avail_gb / 1.2)))
    except Exception:
        pass
    return NCPU


def _run_coqc(path, timeout, tries=3):
    for attempt in range(tries):
        try:
            p = subprocess.run(['coqc', '-Q', COQ, 'SP', path], capture_output=True, text=True,
                               timeout=timeout)
        except subprocess.TimeoutExpired:
            return 124, '', f'coqc timed out after {timeout}s on {path}'
        if p.returncode < 0 or p.returncode in (137, 143):
            # killed from outside (OOM killer, a stray pkill): not a verdict, try again
            time.sleep(2 + 3 * attempt)
            continue
        return p.returncode, p.stdout, p.stderr
    return p.returncode, p.stdout, p.stderr + ' (killed by a signal %d times)' % tries


def _shard_file(workdir, k, imports, fn, case_ty, res_ty, pairs):
    path = os.path.join(workdir, f'cases_{k}.v')
    with open(path, 'w') as f:
        f.write(_HEADER.format(imports=imports))
        f.write(f"Definition cases : list (({case_ty}) * ({res_ty})) := [\n")
        f.write(';\n'.join(f"({coq(c)}, {coq(r)})" for c, r in pairs))
        f.write("\n].\n")
        f.write(f"Eval vm_compute in (mism ({fn}) cases).\n")
    return path


def parse_zlist(out):
    m = re.search(r'=\s*(\[.*?\])', out, re.S)
    if not m:
        raise RuntimeError('cannot parse coq output: ' + out[:2000])
    return [int(x) for x in re.findall(r'-?\d+', m.group(1))]


class ModelUnavailable(Exception):
    """the model could not be evaluated (Coq build broken, coqc error)"""


def coq_mismatches(imports, fn, case_ty, res_ty, cases, results, shard=300, timeout=600,
                   workdir=None):
    """positions i where (fn cases[i]) evaluated by the Coq kernel differs from results[i]"""
    assert len(cases) == len(results)
    if not cases:
        return []
    own = workdir is None
    if own:
        workdir = tempfile.mkdtemp(prefix='sp_cases_')
    try:
        jobs = []
        for k, lo in enumerate(range(0, len(cases), shard)):
            pairs = list(zip(cases[lo:lo + shard], results[lo:lo + shard]))
            jobs.append((lo, _shard_file(workdir, k, imports, fn, case_ty, res_ty, pairs)))
        bad = []
        with cf.ThreadPoolExecutor(max_workers=_workers()) as ex:
            futs = {ex.submit(_run_coqc, path, timeout): (lo, path) for lo, path in jobs}
            for fut in cf.as_completed(futs):
                lo, path = futs[fut]
                rc, out, err = fut.result()
                if rc != 0:
                    keep = os.path.join(VERIF, 'build', 'failed_' + os.path.basename(path))
                    os.makedirs(os.path.dirname(keep), exist_ok=True)
                    shutil.copy(path, keep)
                    raise ModelUnavailable(f"coqc failed on {keep}: {err[-2000:]}")
                bad.extend(lo + i for i in parse_zlist(out))
        return sorted(bad)
    finally:
        if own:
            shutil.rmtree(workdir, ignore_errors=True)


def coq_eval(imports, term, timeout=300):
    """kernel-evaluate one term; returns Coq's printed value (text)"""
    d = tempfile.mkdtemp(prefix='sp_eval_')
    try:
        path = os.path.join(d, 'eval1.v')
        with open(path, 'w') as f:
            f.write(_HEADER.format(imports=imports))
            f.write(f"Eval vm_compute in ({term}).\n")
        rc, out, err = _run_coqc(path, timeout)
        if rc != 0:
            raise ModelUnavailable(err[-2000:])
        m = re.search(r'=\s*(.*?)\n\s*:\s', out, re.S)
        return ' '.join((m.group(1) if m else out).split())
    finally:
        shutil.rmtree(d, ignore_errors=True)


# --------------------------------------------------------------------------
# exporting real pyarrow buffers
# --------------------------------------------------------------------------
def _bits(buf, nbits):
    import numpy as np
    if buf is None:
        return None
    by = np.frombuffer(buf, dtype=np.uint8)
    return [bool((by[i // 8] >> (i % 8)) & 1) for i in range(min(nbits, len(by) * 8))]


def export_listarr(arr, scale=1):
    """buffers of a GeometryListArray as the model's [listarr] record.
    Coordinates are multiplied by `scale` (a power of two) and must then be integral."""
    import numpy as np
    data = arr.__arrow_array__() if hasattr(arr, '__arrow_array__') else arr.data
    bufs = data.buffers()
    off, n = data.offset, len(data)
    if len(bufs) < 3:
        raise ValueError('null-typed array: not modelled')
    valid = _bits(bufs[0], off + n)
    offs = []
    # number of offset levels, read off the public arrow type (not a private attribute)
    nlev, t = 0, data.type
    import pyarrow as pa
    while pa.types.is_list(t) or pa.types.is_large_list(t):
        nlev += 1
        t = t.value_type
    for lev in range(nlev):
        ob = np.frombuffer(bufs[1 + 2 * lev], dtype=np.uint32) if bufs[1 + 2 * lev] is not None \
            else np.array([0], dtype=np.uint32)
        offs.append([Nat(int(x)) for x in ob])
    # trim trailing padding of each offsets buffer to what the level above can reach
    need = off + n
    trimmed = []
    for o in offs:
        o = o[:need + 1] if len(o) > need + 1 else o
        trimmed.append(o)
        need = int(o[-1]) if o else 0
    vb = bufs[-1]
    vals = np.frombuffer(vb, dtype=arr.numpy_dtype) if vb is not None else np.array([], dtype=arr.numpy_dtype)
    vals = vals[:need]
    vals = [num(float(v) * scale) if np.issubdtype(vals.dtype, np.floating) else Some(int(v) * scale)
            for v in vals]
    return Rec('Build_listarr', Nat(off), Nat(n),
               None if valid is None else Some(valid), trimmed, vals)


def export_fixarr(arr, scale=1):
    import numpy as np
    data = arr.__arrow_array__() if hasattr(arr, '__arrow_array__') else arr.data
    bufs = data.buffers()
    off, n = data.offset, len(data)
    valid = _bits(bufs[0], off + n)
    vals = np.frombuffer(bufs[1], dtype=arr.numpy_dtype) if bufs[1] is not None \
        else np.array([], dtype=arr.numpy_dtype)
    vals = vals[:2 * (off + n)]
    vals = [num(float(v) * scale) if np.issubdtype(vals.dtype, np.floating) else Some(int(v) * scale)
            for v in vals]
    return Rec('Build_fixarr', Nat(off), Nat(n), None if valid is None else Some(valid), vals)


def fnum(x, scale=1):
    """an implementation float result -> model num (None for NaN)"""
    return num(float(x) * scale)


# --------------------------------------------------------------------------
# proof obligations
# --------------------------------------------------------------------------
FORBIDDEN = re.compile(
    r'\b(Admitted|admit|Axiom|Axioms|Parameter|Parameters|Conjecture|Admit Obligations|'
    r'bypass_check|native_compute)\b|Unset\s+Guard|Unset\s+Positivity|Unset\s+Universe|type-in-type')


def strip_comments(src):
    out, depth, i = [], 0, 0
    while i < len(src):
        if src.startswith('(*', i):
            depth += 1
            i += 2
        elif src.startswith('*)', i) and depth:
            depth -= 1
            i += 2
        else:
            if depth == 0:
                out.append(src[i])
            i += 1
    return ''.join(out)


def scan_forbidden():
    hits = []
    for root, _, files in os.walk(COQ):
        for fn in files:
            if fn.endswith('.v'):
                p = os.path.join(root, fn)
                src = strip_comments(open(p).read())
                for ln, line in enumerate(src.splitlines(), 1):
                    if FORBIDDEN.search(line):
                        hits.append(f"{os.path.relpath(p, COQ)}:{ln}: {line.strip()[:100]}")
    return hits


def coq_build(target=None, timeout=3000):
    """incremental full .vo build (never -vos) of `target` (a path relative to coq/,
    e.g. Properties/C13.vo) and everything it depends on; whole development if None"""
    subprocess.run([os.path.join(VERIF, 'setup.sh'), '--makefile-only'], check=True,
                   capture_output=True)
    cmd = ['timeout', str(timeout), 'make', '-C', COQ, f'-j{NCPU}']
    if target:
        cmd.append(target)
    p = subprocess.run(cmd, capture_output=True, text=True)
    return p.returncode == 0, (p.stdout + p.stderr)[-4000:]


def coqchk(pid, timeout=3000):
    """independent re-check of Properties/<pid>.vo and everything it depends on"""
    try:
        p = subprocess.run(['coqchk', '-Q', COQ, 'SP', '-o', f'SP.Properties.{pid}'],
                           capture_output=True, text=True, timeout=timeout)
    except subprocess.TimeoutExpired:
        return {'ok': False, 'summary': 'coqchk timed out'}
    out = p.stdout + p.stderr
    i = out.find('CONTEXT SUMMARY')
    summ = ' '.join(out[i:].split()) if i >= 0 else out[-500:]
    return {'ok': p.returncode == 0 and 'successfully checked' in out, 'summary': summ[:3000]}


def proof_obligations(pid):
    """compile Properties/<pid>.v afresh and read every Print Assumptions block.
    returns dict(obligations, discharged, theorems=[{name, axioms}], ok, log)"""
    src = os.path.join(COQ, 'Properties', f'{pid}.v')
    res = {'obligations': 0, 'discharged': 0, 'theorems': [], 'ok': False, 'log': '',
           'axioms': []}
    if not os.path.exists(src):
        res['log'] = 'no Properties file'
        return res
    text = strip_comments(open(src).read())
    names = re.findall(r'Print\s+Assumptions\s+([\w\.\']+)\s*\.', text)
    res['obligations'] = len(names)
    ok, log = coq_build(f'Properties/{pid}.vo')
    if not ok:
        res['log'] = 'coq build failed: ' + log
        return res
    # The assumptions are read from a generated file that only `Require`s the freshly built
    # Properties/<pid>.vo (nothing imported), so that every axiom prints under its qualified
    # name whatever the Properties file itself imports (a file that imports PrimFloat would
    # print `add` for PrimFloat.add, which the allow-list must not accept).
    pa_dir = tempfile.mkdtemp(prefix='sp_pa_')
    pa_file = os.path.join(pa_dir, f'PA_{pid}.v')
    with open(pa_file, 'w') as f:
        f.write(f'From SP Require Properties.{pid}.\n')
        for nm in names:
            f.write(f'Print Assumptions SP.Properties.{pid}.{nm}.\n')
    try:
        rc, out, err = _run_coqc(pa_file, 1200)
    finally:
        shutil.rmtree(pa_dir, ignore_errors=True)
    if rc != 0:
        res['log'] = 'Print Assumptions of the Properties file failed: ' + err[-3000:]
        return res
    # split the output into one block per Print Assumptions
    blocks = re.split(r'(?=Closed under the global context|Axioms:)', out)
    blocks = [b for b in blocks if b.startswith('Closed under') or b.startswith('Axioms:')]
    allax = set()
    for name, b in zip(names, blocks):
        if b.startswith('Closed under'):
            axs = []
        else:
            body = b[len('Axioms:'):]
            axs = re.findall(r'^([A-Za-z_][\w\.\']*)\s*:', body, re.M)
        allax.update(axs)
        good = all(axiom_allowed(a) for a in axs)
        res['theorems'].append({'name': name, 'axioms': axs, 'accepted': good})
        if good:
            res['discharged'] += 1
    if len(blocks) != len(names):
        res['log'] = f'expected {len(names)} assumption blocks, saw {len(blocks)}'
        res['discharged'] = min(res['discharged'], len(blocks))
    forb = scan_forbidden()
    if forb:
        res['log'] += ' forbidden constructs: ' + '; '.join(forb[:5])
        res['discharged'] = 0
    res['axioms'] = sorted(allax)
    res['ok'] = (res['obligations'] > 0 and res['discharged'] == res['obligations'])
    return res


# --------------------------------------------------------------------------
# result plumbing
# --------------------------------------------------------------------------
class Report:
    """collected by a property's harness while it runs"""

    def __init__(self, pid, tier, seed):
        self.pid, self.tier, self.seed = pid, tier, seed
        self.rng = random.Random(seed)
        self.evaluations = 0
        self.nontrivial_keys = set()
        self.rule = ''
        self.samples = []
        self.hist = {}
        self.violations = []      # dicts: signature, what, replay (dict)
        self.extra = {}
        self.assumptions = []
        self.t0 = time.time()

    def count(self, cls, n=1):
        self.hist[cls] = self.hist.get(cls, 0) + n

    def nontrivial(self, key):
        self.nontrivial_keys.add(key if isinstance(key, (str, int, tuple)) else repr(key))

    def sample(self, s, cap=6):
        if len(self.samples) < cap:
            self.samples.append(jsonable(s))

    def violation(self, signature, what, replay):
        self.violations.append({'signature': signature, 'what': what, 'replay': jsonable(replay)})


def load_known(pid):
    """KNOWN_FINDINGS.txt: `known: {json}` lines are recorded (unrepaired) defects,
    `fixed: property=<id> <commit> <what failed>` lines are repaired ones (they
    suppress nothing)."""
    path = os.path.join(VERIF, 'KNOWN_FINDINGS.txt')
    out = []
    if os.path.exists(path):
        for line in open(path):
            line = line.strip()
            if line.startswith('known:'):
                d = json.loads(line[len('known:'):])
                d['status'] = 'known'
                if d.get('property') == pid:
                    out.append(d)
    return out


def stable_hash(obj):
    return hashlib.sha256(json.dumps(jsonable(obj), sort_keys=True).encode()).hexdigest()[:12]


def source_fingerprint(files):
    """hash of the comment/format-insensitive AST of the anchored source files"""
    import ast
    h = hashlib.sha256()
    for f in files:
        p = os.path.join(REPO, f)
        try:
            h.update(ast.dump(ast.parse(open(p).read()), include_attributes=False).encode())
        except Exception as e:  # unparsable source is itself a difference
            h.update(repr(e).encode())
    return h.hexdigest()[:16]
