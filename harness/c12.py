"""C12 -- stored partition bounds are the true extents; pruning never loses a row.

Correspondence (real library on a scratch directory vs Model/MetaCodec.v + Model/NatSort.v
evaluated by the Coq kernel):
  * datasets written by DaskGeoDataFrame.to_parquet and pack_partitions_to_parquet
    (1..16 partitions, two geometry columns, geometry= either, two datasets by list / glob):
    the raw JSON of _common_metadata = model dump of the true extents of the part files;
    model load of that JSON = frame[col].partition_bounds exposed by read_parquet_dask; partition i as
    loaded = file part.i.parquet; read_parquet_dask(bounds=box) keeps the partitions the
    model's filter keeps, reports their bounds, and loses no row that intersects the box
  * synthetic metadata documents (shuffled / >= 11 / missing / non-numeric keys) through the
    public reader (read_parquet_dask on a dataset whose _common_metadata is rewritten)
  * dask.utils.natural_sort_key against the model
  * coordinates that are not small integers (c12_util.COORD_MODES: decimals, 16-17 significant digits,
    1e-11, 2^53 / 1e16 / 1e22, extents of a few ulps, float32 values, -0.0): the same comparisons on exact
    binary64 values (c12_util.transport), boxes whose corners are an extent value / one ulp beyond / inside;
    synthetic documents with float values of these classes through the real reader
  * a dataset without its _common_metadata file read with bounds=; load_divisions=True with bounds=
    against the same read without load_divisions
"""
import json
import math
import os
import time

import numpy as np

from . import common as C
from . import c11_util as U
from . import c12_util as F
from . import geomgen as G

ANCHOR_FILES = ['spatialpandas/io/parquet.py', 'spatialpandas/dask.py']
TRUSTED = ['pandas DataFrame.to_dict / DataFrame(dict of dicts) / sort_index and json as transcribed in '
           'Model/MetaCodec.v (exercised by the synthetic-metadata stream)',
           'dask.utils.natural_sort_key as transcribed in Model/NatSort.v (exercised by the natsort stream)',
           'Dask writes partition i to part.i.parquet; pyarrow parquet I/O (validated differentially)',
           "Python's json module as the reference decimal <-> binary64 conversion when the stored document is read "
           'by the harness; binary64 values reach the model as exact integers (one power of two per case, or ranks: '
           'C12_read_order_invariant)']

IMPORTS = 'Model.Num Model.Bounds Model.NatSort Model.MetaCodec'
RB_FN = "fun '(ds, n, active, q) => read_bounds ds n active q"
RB_CASE = 'list (option (list (string * bounds_json))) * nat * string * option qbox'
RB_RES = 'option (colbounds * list nat)'
DUMP_FN = 'fun bs => let j := dump bs in (jx0 j, jy0 j, jx1 j, jy1 j)'
DUMP_CASE = 'list bbox'
DUMP_RES = 'entries * entries * entries * entries'
PK_FN = ("fun '(dir, wi) => let '(files, ab) := pack_layout dir wi in "
         "(map (fun f => (snd (fst f), snd f)) files, ab)")
PK_CASE = 'string * list (option (nat * list (string * bbox)))'
PK_RES = 'list (string * nat) * colbounds'
LOAD_FN = 'load_cols'
LOAD_CASE = 'list (string * bounds_json)'
LOAD_RES = 'option colbounds'

KIND_PAIRS = [('point', 'polygon'), ('multipoint', 'line'), ('polygon', 'point'),
              ('multiline', 'multipolygon'), ('ring', 'multipoint'), ('multipolygon', 'multiline'),
              ('line', 'ring')]


def _tb(series):
    return tuple(F.gnum(v) for v in series.total_bounds)


def _nan_eq_rows(a, b):
    return a == b


def _model(fn, case):
    """the model's value on one case, as Coq prints it; when the case holds non-integral floats its
    numbers went to the model multiplied by one power of two (exact), or as ranks (c12_util.transport)"""
    term, how = F.coq_term(case)
    txt = C.coq_eval(IMPORTS, f'{fn} {term}')
    if how == ('scale', 0):
        return txt
    if how[0] == 'scale':
        return {'all_numbers_times_2_to_the': how[1], 'value': txt[:4000]}
    return {'numbers_replaced_by_their_rank_in': how[1], 'value': txt[:4000]}


class _DaskProxy:
    """stands in for the name `dask` inside spatialpandas.dask while pack_partitions_to_parquet
    runs: records what dask.compute returns (the second call returns write_info)"""

    def __init__(self, real):
        self._real = real
        self.log = []

    def __getattr__(self, n):
        return getattr(self._real, n)

    def compute(self, *a, **k):
        r = self._real.compute(*a, **k)
        self.log.append(r)
        return r


def observe_pack(rep, ddf, path, spec, pk):
    """runs pack_partitions_to_parquet.  OPTIONAL extra: when spatialpandas.dask holds the module name
    `dask`, what dask.compute returns is recorded to see the internal write_info (skipped and counted
    otherwise; nothing found this way is a violation by itself)."""
    import types
    import spatialpandas.dask as spd
    real = getattr(spd, 'dask', None)
    proxy = _DaskProxy(real) if isinstance(real, types.ModuleType) else None
    if proxy is not None:
        spd.dask = proxy
    returned = None
    try:
        returned = ddf.pack_partitions_to_parquet(path, npartitions=spec['npartitions'], p=spec.get('p', 6))
    finally:
        if proxy is not None:
            spd.dask = real
    if proxy is None:
        rep.count('internal-unavailable:pack-write_info')
        return None, returned
    infos = [r for r in proxy.log
             if isinstance(r, tuple) and r and all(x is None or (isinstance(x, dict) and 'total_bounds' in x)
                                                   for x in r)]
    if len(infos) != 1:
        rep.count('internal-unavailable:pack-write_info')
        return None, returned
    return list(infos[0]), returned


def pack_case(rep, ds, write_info, pk):
    """the observed write_info through Model/MetaCodec.v pack_layout = the files and the bounds found"""
    path, pieces = ds['path'], ds['pieces']
    wi_term = [None if x is None else
               C.Some((C.Nat(k), [(str(c), tuple(F.gnum(v) for v in b)) for c, b in x['total_bounds'].items()]))
               for k, x in enumerate(write_info)]
    nonempty = [k for k, x in enumerate(write_info) if x is not None]
    raw = U.raw_spatial_metadata(path)
    stored = [(col, [tuple(F.gnum(dict(dict(cols)[c])[str(j)]) for c in ('x0', 'y0', 'x1', 'y1'))
                     for j in range(len(dict(cols)['x0']))]) for col, cols in (raw or [])]
    files = sorted(f for f in os.listdir(path) if f.endswith('.parquet'))
    real_files = [(os.path.join(path, f'part.{j}.parquet'), C.Nat(k)) for j, k in enumerate(nonempty)]
    meta = {'stream': 'dataset', 'specs': [ds['spec']], 'write_info_nonempty': nonempty,
            'n_write_info': len(write_info), 'files': files}
    if len(files) != len(nonempty) or len(pieces) != len(nonempty):
        rep.count('internal-differs:pack-files')
        return
    for j, k in enumerate(nonempty):
        x = write_info[k]
        # (x['meta'] of the first part accumulates every part's row groups: not comparable)
        if any(tuple(F.gnum(v) for v in b) != _tb(pieces[j][c]) for c, b in x['total_bounds'].items()):
            rep.count('internal-differs:pack-file-content')
            return
    pk[0].append((path, wi_term))
    pk[1].append((real_files, stored))
    pk[2].append(meta)
    rep.count('pack:compacted' if len(nonempty) < len(write_info) else 'pack:dense')
    if len(nonempty) < len(write_info):
        rep.nontrivial(('pack-compacted', json.dumps(ds['spec'], sort_keys=True)))


def read_pieces(rep, path, spec):
    """the part files of a dataset, each read on its own (independently of the library's ordering)"""
    from spatialpandas.io import read_parquet
    files = sorted(f for f in os.listdir(path) if f.endswith('.parquet'))
    pieces = []
    for i in range(len(files)):
        f = os.path.join(path, f'part.{i}.parquet')
        if not os.path.exists(f):
            rep.violation('part-names', f'part files are not numbered 0..{len(files) - 1}',
                          {'stream': 'dataset', 'spec': spec, 'files': files})
            return None
        pieces.append(read_parquet(f))
    return pieces


def make_frame12(spec):
    """the frame of a dataset spec: geometry columns ga, gb + payload v; optionally a leading block of
    rows without coordinates and a shuffled (non-monotonic) named index"""
    import random
    import pandas as pd
    rng = random.Random(spec['seed'])
    k1, k2 = spec['kinds']
    n = spec['nrows']
    df, _ = U.make_frame(rng, n, [('ga', k1, spec['subtypes'][0]), ('gb', k2, spec['subtypes'][1])],
                         index_kind='range', derive_steps=spec.get('derive', 0), payload=('v',))
    df = df[['ga', 'v', 'gb']] if spec.get('order', 0) == 0 else df[['v', 'gb', 'ga']]
    df['v'] = df['v'] + spec.get('voffset', 0)
    if spec.get('coords'):
        # coordinates that are not small integers: every integer coordinate is replaced by the value a
        # strictly increasing table (one per axis, of the value class named in the spec) gives it
        tx, ty = F.coord_tables(spec['seed'] + 17, tuple(spec['coords']))
        for c, st in zip(('ga', 'gb'), spec['subtypes']):
            df[c] = F.map_coords(df[c].array, tx, ty, st)
    if spec.get('missing_head'):
        # a leading block of rows without any coordinate, so that whole partitions have a NaN extent
        h = spec['missing_head']
        for c in ('ga', 'gb'):
            arr = df[c].array
            idx = np.array([-1] * min(h, n) + list(range(min(h, n), n)), dtype='int64')
            df[c] = arr.take(idx, allow_fill=True)
    if spec.get('index') == 'shuffled':
        # a non-monotonic index: a one-piece result must keep the stored row order
        vals = list(range(500, 500 + n))
        rng.shuffle(vals)
        if n > 1 and vals == sorted(vals):
            vals.reverse()
        df.index = pd.Index(vals, name='k')
    return df


def build_renamed(rep, sc, spec):
    """three-step history on ONE frame object: to_parquet -> in-place `ddf.columns = [...]` that lets
    a geometry column take over the name another geometry column had -> to_parquet again.  The second
    dataset must record, for every column, the extents of the rows stored under that name."""
    import dask.dataframe as dd
    base = spec['renamed_from']
    df = make_frame12(base)
    ddf = dd.from_pandas(df, npartitions=base['npartitions'])
    p1 = os.path.join(sc.dir, 'ren_first')
    ddf.to_parquet(p1, compression=base.get('compression', 'snappy'))
    if spec.get('touch_bounds'):
        _ = ddf['ga'].partition_bounds, ddf.geometry.partition_bounds      # public reads in between
    old = list(ddf.columns)
    mode = spec.get('mode', 'swap')
    ren = {'swap': {'ga': 'gb', 'gb': 'ga'}, 'shift': {'ga': 'gb', 'gb': 'gc'}}[mode]
    ddf.columns = [ren.get(c, c) for c in old]                              # same object, renamed in place
    path = os.path.join(sc.dir, spec.get('dirname') or 'ren_second')
    ddf.to_parquet(path, compression=base.get('compression', 'snappy'))
    pieces = read_pieces(rep, path, spec)
    if pieces is None:
        return None
    geom = [c for c in ddf.columns if c in ('ga', 'gb', 'gc')]
    rep.count(f'renamed:{mode}')
    p1pieces = read_pieces(rep, p1, spec)
    if p1pieces and any(_tb(a[c]) != _tb(b[c]) for a, b in zip(p1pieces, pieces) for c in ('gb',)):
        rep.nontrivial(('renamed', json.dumps(spec, sort_keys=True, default=str)))
    return {'path': path, 'pieces': pieces, 'geom': geom, 'frame': None, 'spec': spec, 'returned': None,
            'first': {'path': p1, 'pieces': p1pieces, 'geom': ['ga', 'gb'] if old.index('ga') < old.index('gb')
                      else ['gb', 'ga'], 'frame': None, 'spec': {**spec, 'writer': 'renamed-first'}, 'returned': None}}


def build_filtered(rep, sc, spec):
    """three-step history: a frame that already carries cached partition bounds (read back with
    read_parquet_dask, or the frame pack_partitions_to_parquet returned) -> boolean-mask row filter
    -> to_parquet.  The filter empties some partitions, shrinks others and leaves the rest alone; the
    metadata written must describe the rows stored, not the frame the rows were taken from."""
    import random
    from spatialpandas.io import read_parquet_dask
    base = build_dataset(rep, sc, spec['filtered_from'])
    if base is None:
        return None
    via = spec.get('via', 'read_back')
    r = base['returned'] if via == 'returned' and base.get('returned') is not None \
        else read_parquet_dask(base['path'])
    rng = random.Random(spec['seed'])
    keep = []
    shift = rng.randrange(3)
    for i, p in enumerate(base['pieces']):
        vs = [int(v) for v in p['v']]
        mode = (i + shift) % 3
        if mode == 0:
            continue                                   # partition emptied
        if mode == 1 and len(vs) > 1:
            keep += rng.sample(vs, max(1, len(vs) // 2))   # extent (probably) shrinks
        else:
            keep += vs
    src = r
    if spec.get('select_columns'):
        src = src[list(src.columns)]                   # same rows: cached bounds legitimately carried along
    if spec.get('mask', 'isin') == 'isin':
        f = src[src['v'].isin(keep)]
    else:
        t = sorted(keep)[len(keep) // 2] if keep else 0
        f = src[src['v'] >= t]
    path = os.path.join(sc.dir, spec.get('dirname') or 'flt_' + str(spec['seed']))
    f.to_parquet(path, compression=spec.get('compression', 'snappy'))
    pieces = read_pieces(rep, path, spec)
    if pieces is None:
        return None
    nempty = sum(1 for p in pieces if len(p) == 0)
    shrunk = sum(1 for p, q in zip(pieces, base['pieces'])
                 if len(p) and any(_tb(p[c]) != _tb(q[c]) for c in base['geom']))
    rep.count(f'filtered:{via}:{spec["filtered_from"]["writer"]}')
    rep.count('filtered:partitions-emptied', nempty)
    rep.count('filtered:partitions-shrunk', shrunk)
    if shrunk or nempty:
        rep.nontrivial(('filtered', json.dumps(spec, sort_keys=True, default=str)))
    return {'path': path, 'pieces': pieces, 'geom': base['geom'], 'frame': None, 'spec': spec, 'returned': None}


def build_dataset(rep, sc, spec, pk=None):
    """write one dataset; returns dict(path, pieces=[frame per part file i], geom=[names])"""
    import dask.dataframe as dd
    import random
    from spatialpandas.io import read_parquet
    if spec.get('filtered_from'):
        return build_filtered(rep, sc, spec)
    if spec.get('renamed_from'):
        return build_renamed(rep, sc, spec)
    df = make_frame12(spec)
    ddf = dd.from_pandas(df, npartitions=spec['npartitions'], sort=spec.get('index') != 'shuffled')
    path = os.path.join(sc.dir, spec['dirname']) if spec.get('dirname') else sc.new('ds' + spec.get('tag', ''))
    returned = None
    if spec['writer'] == 'to_parquet':
        ddf.to_parquet(path, compression=spec.get('compression', 'snappy'))
    elif spec['writer'] == 'plain':
        # Dask's own writer: a dataset without spatialpandas metadata
        dd.to_parquet(ddf, path, engine='pyarrow', write_metadata_file=True)
    else:
        write_info, returned = observe_pack(rep, ddf, path, spec, pk)
    pieces = read_pieces(rep, path, spec)
    if pieces is None:
        return None
    ds = {'path': path, 'pieces': pieces, 'geom': [c for c in df.columns if c in ('ga', 'gb')],
          'frame': df, 'spec': spec, 'returned': returned}
    if spec['writer'] == 'pack' and write_info is not None and pk is not None:
        pack_case(rep, ds, write_info, pk)
    return ds


def boxes_for(rng, rows, nrandom):
    """query boxes around the recorded extents [(x0,y0,x1,y1) floats]: touching an extent exactly,
    one unit beyond, reversed corners, disjoint, covering, degenerate, NaN; plus random ones"""
    out = [(100, 100, 101, 101), (-100, -100, 100, 100), (101, 101, 100, 100), (100, -100, -100, 100),
           (float('nan'), 0, 1, 1), (0, 0, 0, 0), (0, float('nan'), 5, 5)]
    fin = [r for r in rows if all(math.isfinite(v) for v in r)]
    for r in (rng.sample(fin, min(2, len(fin))) if fin else []):
        x0, y0, x1, y1 = [int(v) for v in r]
        out += [(x1, y0, x1 + 3, y1), (x1 + 1, y0, x1 + 3, y1), (x1, y1, x1 + 2, y1 + 2),
                (x1 + 1, y1 + 1, x1 + 2, y1 + 2), (x0 - 2, y0 - 2, x0, y0), (x0 - 2, y0 - 2, x0 - 1, y0 - 1),
                (x1 + 3, y1, x1, y0), (x0, y1 + 1, x1, y1 + 2), (x0, y0 - 1, x1, y0 - 3),
                (x0, y0, x0, y0), (x0 - 1, y0, x0 - 1, y1), (x0, y1, x1, y1)]
    for _ in range(nrandom):
        out.append(tuple(rng.randint(-9, 9) for _ in range(4)))
    return out


def public_bounds(r, cols):
    """the per-partition bounds a DaskGeoDataFrame exposes, through the public API:
    frame[col].partition_bounds for every geometry column"""
    return {c: r[c].partition_bounds for c in cols}


def doc_columns(raws):
    """geometry column names in the order the metadata documents introduce them"""
    out = []
    for raw in raws:
        for col, _ in (raw or []):
            if col not in out:
                out.append(col)
    return out


def check_read(rep, datasets, how, geometry, boxes, rb_cases, rb_res, rb_meta, cost):
    """read one or two datasets (how = 'single' | 'list' | 'glob'), with geometry= and each box"""
    from spatialpandas.io import read_parquet_dask
    if how == 'single':
        arg = datasets[0]['path']
    elif how == 'list':
        arg = [d['path'] for d in datasets]
    else:
        arg = os.path.join(os.path.dirname(datasets[0]['path']), 'ds*')
    pieces = [p for d in datasets for p in d['pieces']]
    ids = [list(p['v']) for p in pieces]
    raws = [U.raw_spatial_metadata(d['path']) for d in datasets]
    ds_term = [F.dataset_term(r) for r in raws]
    specs = [d['spec'] for d in datasets]
    meta0 = {'stream': 'dataset', 'specs': specs, 'how': how, 'geometry': geometry}
    active = geometry or datasets[0]['geom'][0]

    def observe(box):
        kw = {}
        if geometry:
            kw['geometry'] = geometry
        if box is not None:
            kw['bounds'] = box
        try:
            r = read_parquet_dask(arg, **kw)
            got = r.compute()
        except Exception as e:
            rep.violation('read-raises:' + type(e).__name__, f'read_parquet_dask raised {e!r}'[:300],
                          {**meta0, 'box': box})
            return None
        vs = list(got['v'])
        have = set(vs)
        # a part file without rows has a NaN extent: never selected by a box, always loaded without one
        kept = [i for i, s in enumerate(ids) if (set(s) <= have if s else box is None)]
        exp_vs = [v for i in kept for v in ids[i]]
        if vs != exp_vs:
            rep.violation('rows-not-whole-partitions',
                          'rows returned are not the kept partitions\' rows in partition order',
                          {**meta0, 'box': box, 'kept': kept, 'returned_v': vs[:50]})
        if r.npartitions != max(1, len(kept)):
            rep.violation('npartitions', 'npartitions differs from the number of kept partitions',
                          {**meta0, 'box': box, 'kept': kept, 'npartitions': r.npartitions})
        if got.geometry.name != active or r.geometry.name != active:
            rep.violation('active-geometry', 'active geometry differs from the requested one',
                          {**meta0, 'box': box, 'got': got.geometry.name})
        return r, got, kept

    for box in [None] + list(boxes):
        ob = observe(box)
        cost[0] += 1
        if ob is None:
            continue
        r, got, kept = ob
        rep.evaluations += 1
        try:
            pub = public_bounds(r, datasets[0]['geom'])
        except Exception as e:
            rep.violation('partition-bounds-raises:' + type(e).__name__,
                          f'frame[col].partition_bounds raised {e!r}'[:300], {**meta0, 'box': box})
            continue
        true_kept = {c: [_tb(pieces[i][c]) for i in kept] for c in datasets[0]['geom']}
        for col, fr in pub.items():
            # row j describes partition j: labels 0..k-1, named 'partition'
            if list(fr.columns) != ['x0', 'y0', 'x1', 'y1']:
                # the values are compared by column NAME; the frame's column order follows the key
                # order of the stored document (counted: downstream code that reads .values positionally,
                # DaskGeoSeries.partition_sindex, would care -- that is C06's business)
                rep.count('extra:bounds-frame-column-order-not-x0y0x1y1')
            if list(fr.index) != list(range(len(fr))) or fr.index.name != 'partition' \
                    or sorted(fr.columns) != ['x0', 'x1', 'y0', 'y1']:
                rep.violation('bounds-frame-labels',
                              f'partition_bounds of {col!r} is not labelled 0..{len(fr) - 1} / partition: '
                              f'{list(fr.index)[:8]} name={fr.index.name!r} columns={list(fr.columns)}',
                              {**meta0, 'box': box, 'column': col})
            # the bounds reported are those of the partitions kept (= their true extents), in order;
            # when nothing is kept the result is one empty stand-in partition without extent
            rows = F.bbox_rows(fr)
            want = true_kept[col] if kept else [(None, None, None, None)] * len(rows)
            if rows != want:
                badj = [j for j in range(min(len(rows), len(want))) if rows[j] != want[j]]
                sig = f'stored-bounds-differ:{specs[0]["writer"]}' if box is None else 'reported-bounds-differ'
                rep.violation(sig, f'partition bounds of column {col} after the read differ from the extents of the '
                                   f'rows in the partitions kept (rows {badj[:5]} of {len(want)})',
                              {**meta0, 'box': box, 'column': col, 'reported': rows, 'true': want, 'kept': kept})
        # the model's view: stored JSON -> load -> concatenation -> filter.  Bounds are compared in the
        # order the documents name the columns; when a dataset has no metadata or nothing is kept there
        # are no stored bounds to report (what the public API then shows is computed from the rows)
        nometa = any(x is None for x in raws)
        cb = [] if (nometa or not kept) else [(c, F.bbox_rows(pub[c])) for c in doc_columns(raws) if c in pub]
        rb_cases.append((ds_term, C.Nat(len(pieces)), active, F.qbox_term(box)))
        rb_res.append(C.Some((cb, [C.Nat(i) for i in kept])))
        rb_meta.append({**meta0, 'box': box, 'kept': kept, 'reported': cb})
        if box is None:
            # partition i as loaded = part file i of the datasets in path order; recorded row i =
            # true extent of that file, for every geometry column
            if kept != list(range(len(pieces))):
                rep.violation('partition-order', 'partitions are not loaded in part-number / path order',
                              {**meta0, 'kept': kept})
            if r.npartitions == len(pieces) and len(pieces) > 1:
                j = rep.rng.randrange(len(pieces))
                pj = list(r.partitions[j].compute()['v'])
                if pj != ids[j]:
                    rep.violation('partition-order', f'partition {j} does not hold the rows of part file {j}',
                                  {**meta0, 'partition': j, 'rows': pj, 'file_rows': ids[j]})
            if nometa:
                rep.count(f'{how}:no-metadata')
                continue
            rep.count(f'{how}:{specs[0]["writer"]}:{len(pieces)}parts')
            if len(pieces) >= 11:
                rep.nontrivial(('ge11', how, json.dumps(specs, sort_keys=True), geometry))
            continue
        # completeness: every row of the whole dataset that intersects the box was returned
        nb = _norm(box)
        finite = all(math.isfinite(v) for v in nb)
        cls = 'box:nan' if not finite else ('box:none' if not kept else
                                            'box:all' if len(kept) == len(pieces) else 'box:some')
        rep.count(cls)
        if finite:
            have = set(got['v'])
            for i, p in enumerate(pieces):
                if i in kept or len(p) == 0:
                    continue
                hit = np.asarray(p[active].array.intersects_bounds(nb), dtype=bool)
                if hit.any():
                    rep.violation('pruned-row-intersects',
                                  f'a row of pruned partition {i} intersects the box',
                                  {**meta0, 'box': box, 'partition': i, 'kept': kept,
                                   'rows': [int(v) for v in p['v'][hit]]})
            if 0 < len(kept) < len(pieces):
                rep.nontrivial(('prune', how, json.dumps(specs, sort_keys=True), geometry, tuple(box)))


def extents(d, col):
    """true extents of the part files of column col, as float rows (NaN where there is none)"""
    return [tuple(float('nan') if v is None else float(v) for v in _tb(p[col])) for p in d['pieces']]


def _sample(rng, l, k):
    return rng.sample(l, min(k, len(l)))


def _norm(box):
    x0, y0, x1, y1 = box
    if x0 > x1:
        x0, x1 = x1, x0
    if y0 > y1:
        y0, y1 = y1, y0
    return (x0, y0, x1, y1)


def dump_cases(datasets, d_cases, d_res, d_meta):
    """per dataset and geometry column: (true extents of the part files, the stored JSON object).
    Primary check: the PARSED content -- Model/MetaCodec.v load of whatever JSON is there -- equals the
    true extents.  Counted extra: the document is entry for entry the model's dump (key order)."""
    for d in datasets:
        raw = U.raw_spatial_metadata(d['path'])
        if raw is None:
            continue
        for col, cols in raw:
            if col not in d['geom']:
                continue
            true = [_tb(p[col]) for p in d['pieces']]
            dd_ = dict(cols)
            ent = lambda k: [(str(key), F.gnum(v)) for key, v in dd_.get(k, [])]
            d_cases.append((true, F.json_cols_term(cols)))
            d_res.append((C.Some(true), (ent('x0'), ent('y0'), ent('x1'), ent('y1'))))
            d_meta.append({'stream': 'dataset', 'specs': [d['spec']], 'column': col, 'true': true,
                           'raw_keys': [k for k, _ in dd_.get('x0', [])]})


def stored_json_check(rep, dm):
    cases, ress, metas = dm
    # parsed content
    bad = F.coq_mismatches(IMPORTS, "fun '(bs, j) => load j", 'list bbox * bounds_json', 'option (list bbox)',
                           cases, [r[0] for r in ress], shard=60)
    for i in bad[:1]:
        m = metas[i]
        rep.violation(f'stored-json-differs:{m["specs"][0]["writer"]}',
                      'the bounds stored in _common_metadata (parsed, loaded by the model) are not the true extents '
                      'of the part files',
                      {**m, 'stored': ress[i][1],
                       'model_load': _model('load', cases[i][1])})
    # extra: textual shape
    bad = F.coq_mismatches(IMPORTS, "fun '(bs, j) => " + '(' + DUMP_FN + ') bs',
                           'list bbox * bounds_json', DUMP_RES, cases, [r[1] for r in ress], shard=60)
    if bad:
        rep.count('extra:json-document-order-differs-from-model-dump', len(bad))
    rep.extra['json_documents_same_as_model_dump'] = len(cases) - len(bad)


# --------------------------------------------------------------------------
# synthetic metadata through the real _load_partition_bounds
# --------------------------------------------------------------------------
SYNTH_PARTS = [1, 2, 3, 11, 12, 13]


def synth_docs(rng, n):
    docs = []
    for t in range(n):
        nrows = rng.choice(SYNTH_PARTS)
        keys = [str(i) for i in range(nrows)]
        style = rng.choice(['ordered', 'shuffled', 'percol', 'missing', 'badkey', 'gaps', 'string_sorted'])
        cols = {}
        for c in ('x0', 'y0', 'x1', 'y1'):
            ks = list(keys)
            if style == 'shuffled' and c == 'x0':
                rng.shuffle(keys)
                ks = list(keys)
            if style == 'string_sorted':
                ks = sorted(keys)
            if style == 'percol':
                rng.shuffle(ks)
            if style == 'missing' and c != 'x0' and nrows > 1:
                ks = [k for k in ks if rng.random() < 0.8]
            if style == 'gaps':
                ks = [str(int(k) * 3 + 1) for k in ks]
                rng.shuffle(ks)
            cols[c] = [(k, rng.choice([float('nan'), float(rng.randint(-9, 9))])) for k in ks]
        if style == 'badkey':
            bad = rng.choice(['x', '', '1.5', 'a1'])
            cols['y0'] = cols['y0'] + [(bad, 1.0)]
        ncols = rng.choice([1, 2])
        doc = [('ga', list(cols.items()))]
        if ncols == 2:
            doc.append(('gb', [(c, list(reversed(e))) for c, e in cols.items()]))
        docs.append((style, doc))
    return docs


def synth_check(rep, sc, docs):
    """synthetic metadata documents through the PUBLIC reader: a real dataset of n parts whose
    _common_metadata is rewritten with the document (schema and pandas metadata kept), then
    read_parquet_dask(dir)[col].partition_bounds = Model/MetaCodec.v load of the document; a document the
    model rejects (a key that is not a number) must make the read raise"""
    import dask.dataframe as dd
    import pyarrow.parquet as pq
    from spatialpandas import GeoDataFrame
    from spatialpandas.io import read_parquet_dask
    bases = {}
    for n in SYNTH_PARTS:
        rows = [[i % 5, i // 5] for i in range(max(n, 2))]
        df = GeoDataFrame({'ga': G.make_array('point', rows, 'float64'),
                           'gb': G.make_array('point', rows, 'float64'),
                           'v': np.arange(len(rows), dtype='int64')})
        path = sc.new('synth')
        dd.from_pandas(df, npartitions=n).to_parquet(path)
        nfiles = len([f for f in os.listdir(path) if f.endswith('.parquet')])
        if nfiles == n:
            bases[n] = (path, pq.read_schema(os.path.join(path, '_common_metadata')))
    cases, ress, metas = [], [], []
    for style, doc in docs:
        n = len(doc[0][1][0][1])            # keys of the first column's x0
        if n not in bases:
            rep.count('synth:skipped-no-base')
            continue
        path, schema = bases[n]
        text = json.dumps({'partition_bounds': {col: {c: dict(e) for c, e in cols} for col, cols in doc}})
        md = dict(schema.metadata or {})
        md[b'spatialpandas'] = text.encode('utf')
        pq.write_metadata(schema.with_metadata(md), os.path.join(path, '_common_metadata'))
        try:
            r = read_parquet_dask(path)
            pub = public_bounds(r, [col for col, _ in doc])
            res = C.Some([(col, F.bbox_rows(pub[col])) for col, _ in doc])
        except Exception:
            res = None
        cases.append([(col, F.json_cols_term(cols)) for col, cols in doc])
        ress.append(res)
        metas.append({'stream': 'synth', 'style': style, 'doc': doc, 'impl': res})
        rep.evaluations += 1
        rep.count('synth:' + style)
        if n >= 11:
            rep.nontrivial(('synth', text))
    bad = F.coq_mismatches(IMPORTS, LOAD_FN, LOAD_CASE, LOAD_RES, cases, ress)
    for i in bad[:5]:
        rep.violation('load-differs',
                      'the partition bounds read_parquet_dask exposes for a metadata document differ from '
                      'Model/MetaCodec.v load of that document',
                      {**metas[i], 'model': _model(LOAD_FN, cases[i])})


# --------------------------------------------------------------------------
def dataset_specs(rep, tier):
    rng = rep.rng
    specs = []
    if tier == 'quick':
        tp_parts = [1, 2, 3, 7, 10, 11, 12, 13, 16]
        pk_parts = [1, 2, 11, 13, 16]
        reps = 1
    else:
        tp_parts = list(range(1, 17))
        pk_parts = list(range(1, 17))
        reps = 3
    k = 0
    for _ in range(reps):
        for writer, parts in (('to_parquet', tp_parts), ('pack', pk_parts)):
            for npart in parts:
                kinds = KIND_PAIRS[k % len(KIND_PAIRS)]
                k += 1
                specs.append({'writer': writer, 'npartitions': npart, 'kinds': kinds,
                              'subtypes': (rng.choice(G.SUBTYPES), rng.choice(G.SUBTYPES)),
                              'nrows': max(npart, rng.randint(npart * 2, npart * 3 + 6)),
                              'seed': rng.randrange(10 ** 9), 'order': rng.randint(0, 1),
                              'derive': rng.randint(0, 1),
                              'missing_head': rng.choice([0, 0, 3, 7]),
                              'index': 'shuffled' if writer == 'to_parquet' and k % 2 == 0 else 'range',
                              'compression': rng.choice(['snappy', 'gzip', None])})
    return specs


def float_specs(rep, tier):
    """datasets whose coordinates are not small integers: one per value class of c12_util.COORD_MODES and
    writer (the y axis gets another class), partition counts on both sides of 10/11"""
    rng = rep.rng
    parts = [2, 12, 3, 11, 16, 1, 13, 7, 10, 12]
    specs = []
    k = 0
    for _ in range(1 if tier == 'quick' else 4):
        for mode in F.COORD_MODES:
            for writer in ('to_parquet', 'pack'):
                npart = parts[k % len(parts)]
                kinds = KIND_PAIRS[(k * 3 + 1) % len(KIND_PAIRS)]
                k += 1
                coords = (mode, rng.choice(F.COORD_MODES))
                # a float32 column holds the table values rounded to float32 (still exact binary64 extents);
                # not for the classes whose values differ by a few ulps only (they would all coincide)
                st2 = rng.choice(['float64', 'float64', 'float64', 'float32'])
                if 'rel' in coords or 'e16' in coords:
                    st2 = 'float64'
                specs.append({'writer': writer, 'npartitions': npart, 'kinds': kinds,
                              'subtypes': ('float64', st2), 'coords': coords,
                              'nrows': max(npart, rng.randint(npart * 2, npart * 3 + 6)),
                              'seed': rng.randrange(10 ** 9), 'order': rng.randint(0, 1), 'derive': 0,
                              'missing_head': rng.choice([0, 0, 0, 3]),
                              'index': 'shuffled' if writer == 'to_parquet' and k % 4 == 0 else 'range',
                              'compression': rng.choice(['snappy', None])})
    return specs


def drop_common_metadata(ds):
    """the same dataset without its _common_metadata file (a copy of the part files would do as well):
    there are no recorded bounds any more, so bounds= cannot prune and the bounds shown are computed"""
    f = os.path.join(ds['path'], '_common_metadata')
    if os.path.exists(f):
        os.remove(f)
    return {**ds, 'spec': {**ds['spec'], 'drop_common_metadata': True}}


def check_divisions(rep, ds, boxes):
    """read_parquet_dask(load_divisions=True, bounds=box) against the same read without load_divisions
    (which check_read compares with the model): same rows in the same order, same number of partitions,
    same reported bounds; the divisions are the smallest index value of every partition kept followed by
    the largest of the last one.  When load_divisions=True cannot be served at all for the dataset
    (the read without bounds= raises) the read with bounds= must fail in the same way: this is counted,
    not reported, the property says nothing about divisions."""
    from spatialpandas.io import read_parquet_dask
    meta0 = {'stream': 'dataset', 'specs': [ds['spec']], 'how': 'single', 'geometry': None,
             'load_divisions': True}
    geom = ds['geom']

    def attempt(**kw):
        try:
            r = read_parquet_dask(ds['path'], **kw)
            return r, r.compute(), None
        except Exception as e:
            return None, None, e
    _, _, base_err = attempt(load_divisions=True)
    for box in boxes:
        r0, got0, e0 = attempt(bounds=box)
        r1, got1, e1 = attempt(bounds=box, load_divisions=True)
        rep.evaluations += 1
        if e0 is not None:
            continue                                     # reported by check_read
        if e1 is not None:
            cls = type(e1).__name__
            if base_err is not None and type(base_err) is type(e1):
                rep.count(f'load_divisions:unavailable:{cls}')
                continue
            if isinstance(e1, ValueError) and 'unsorted' in str(e1):
                ends = [(p.index.min(), p.index.max()) for p in ds['pieces'] if len(p)]
                flat = [a for a, _ in ends] + [ends[-1][1]] if ends else []
                if flat != sorted(flat):
                    rep.count('load_divisions:unsorted-refused')
                    continue
            rep.violation('load-divisions-read-raises:' + cls,
                          f'read_parquet_dask(load_divisions=True, bounds=...) raised {e1!r} while the same read '
                          f'without bounds= ' + ('returns' if base_err is None else f'raises {base_err!r}'),
                          {**meta0, 'box': box})
            continue
        rep.count('load_divisions:served')
        vs0, vs1 = list(got0['v']), list(got1['v'])
        if vs0 != vs1 or r0.npartitions != r1.npartitions:
            rep.violation('load-divisions-rows-differ',
                          'load_divisions=True changes the rows / partitions a bounds= read returns',
                          {**meta0, 'box': box, 'rows': vs1[:50], 'rows_without': vs0[:50],
                           'npartitions': [r1.npartitions, r0.npartitions]})
            continue
        for c in geom:
            if F.bbox_rows(r1[c].partition_bounds) != F.bbox_rows(r0[c].partition_bounds):
                rep.violation('load-divisions-bounds-differ',
                              f'load_divisions=True changes the bounds reported for column {c} after a bounds= read',
                              {**meta0, 'box': box, 'column': c})
        have = set(vs1)
        kept = [p for p in ds['pieces'] if len(p) and set(p['v']) <= have]
        if kept and len(kept) == r1.npartitions:
            want = tuple([p.index.min() for p in kept] + [kept[-1].index.max()])
            if tuple(r1.divisions) != want:
                rep.violation('load-divisions-differ',
                              'the divisions of a bounds= read are not the index ranges of the partitions kept',
                              {**meta0, 'box': box, 'divisions': [repr(d) for d in r1.divisions],
                               'expected': [repr(d) for d in want]})


def corpus_specs():
    """always-run inputs (minimised earlier failures)"""
    out = []
    d = os.path.join(C.VERIF, 'corpus', 'C12')
    if os.path.isdir(d):
        for f in sorted(os.listdir(d)):
            if f.endswith('.json'):
                out.append(json.load(open(os.path.join(d, f))))
    return out


def run_corpus_entry(rep, sc, ent, acc):
    if ent.get('kind') == 'points':
        # explicit point frame: rows = [[x, y] | None], npartitions, boxes
        import dask.dataframe as dd
        from spatialpandas import GeoDataFrame
        from spatialpandas.io import read_parquet
        rows = ent['rows']
        arr = G.make_array('point', rows, 'float64')
        df = GeoDataFrame({'ga': arr, 'v': np.arange(len(rows), dtype='int64'),
                           'gb': G.make_array('point', rows, 'float64')})
        path = sc.new('dscorpus')
        dd.from_pandas(df, npartitions=ent['npartitions']).to_parquet(path)
        nfiles = len([f for f in os.listdir(path) if f.endswith('.parquet')])
        pieces = [read_parquet(os.path.join(path, f'part.{i}.parquet')) for i in range(nfiles)]
        ds = {'path': path, 'pieces': pieces, 'geom': ['ga', 'gb'], 'frame': df,
              'spec': {'writer': 'to_parquet', 'corpus': ent.get('name'), **{k: ent[k] for k in ('rows', 'npartitions')}}}
        check_read(rep, [ds], 'single', None, [tuple(b) for b in ent['boxes']], *acc)
        return ds
    return None


def run(rep):
    import dask
    tier = getattr(rep, 'tier_run', rep.tier)
    rep.rule = ('[also: coordinates that are not small integers -- one dataset per writer and value class (decimals '
                'with 1..15 places, 53-bit mantissas below 10, thirds / sevenths / 0.1+0.2, 1e-11, 1e2..1e7, extents of a few '
                'ulps at 1e8..1e15, integers around 2^53 / 1e16, 1e21..1e23, float32 values, -0.0 / +-1e-300), compared as exact '
                'binary64 values with boxes touching an extent exactly / one ulp beyond / one ulp inside; synthetic documents '
                'with float values incl. subnormals, 2^53+1, 1e23, 2^64; a dataset without _common_metadata read with '
                'bounds=; load_divisions=True with bounds=] '
                '[also: lists of 2-3 datasets given in an order that is not the sorted path order (b_, a_, a nested '
                'directory; >= 2 partitions each, one >= 11); datasets written from a frame carrying cached bounds '
                '(read back / returned by pack) after a boolean-mask filter that empties some partitions and shrinks '
                'others; one frame object written, its geometry columns renamed in place (swap / shift of names), written again; '
                'half of the to_parquet datasets carry a shuffled (non-monotonic) index] datasets of 2 geometry columns (kind pairs over all 7 kinds, 5 subtypes, missing / empty '
                'elements, optional leading block of missing rows giving NaN-extent partitions) written by '
                'DaskGeoDataFrame.to_parquet and pack_partitions_to_parquet with 1..16 partitions; read singly, '
                'as a list and as a glob of two datasets, geometry= None / other column; boxes touching a recorded '
                'extent exactly / one unit beyond / reversed corners / disjoint / covering / degenerate / NaN + '
                'random; synthetic metadata documents with shuffled, string-sorted, missing, gapped and '
                'non-numeric keys; natural_sort_key on part-file families and random strings.  Non-trivial = '
                '>= 11 partitions loaded, or a box that prunes some but not all partitions, or a synthetic '
                'document with >= 11 keys')
    rb = ([], [], [])
    dm = ([], [], [])
    pk = ([], [], [])
    cost = [0]
    acc = (rb[0], rb[1], rb[2], cost)
    lap = [time.time()]
    secs = rep.extra.setdefault('seconds', {})

    def mark(name):
        now = time.time()
        secs[name] = round(secs.get(name, 0) + now - lap[0], 1)
        lap[0] = now
    with dask.config.set(scheduler='synchronous'), U.Scratch() as sc:
        # corpus first
        for ent in corpus_specs():
            run_corpus_entry(rep, sc, ent, acc)
        # natural sort
        U.natsort_check(rep, U.natsort_cases(rep.rng, 60 if tier == 'quick' else 2000), 'C12')
        mark('natsort')
        # synthetic metadata
        synth_check(rep, sc, synth_docs(rep.rng, 150 if tier == 'quick' else 3000) +
                    F.float_synth_docs(rep.rng, 90 if tier == 'quick' else 1500, SYNTH_PARTS))
        mark('synthetic-metadata')
        # real datasets
        specs = dataset_specs(rep, tier)
        nbox = 3 if tier == 'quick' else 8
        prev = None
        for si, spec in enumerate(specs):
            sub = U.Scratch()
            with sub as s2:
                # directory names whose sorted order is not the order they are given in
                ds = build_dataset(rep, s2, {**spec, 'dirname': 'ds_b_west'}, pk)
                if ds is None:
                    continue
                dump_cases([ds], *dm)
                col0 = ds['geom'][0]
                other = ds['geom'][1]
                rows0, rows1 = extents(ds, col0), extents(ds, other)
                quick = tier == 'quick'
                b0 = boxes_for(rep.rng, rows0, nbox)
                b0 = b0[:5] + _sample(rep.rng, b0[5:], 7 if quick else len(b0) - 5)
                check_read(rep, [ds], 'single', None, b0, *acc)
                check_read(rep, [ds], 'single', other,
                           _sample(rep.rng, boxes_for(rep.rng, rows1, nbox), 4 if quick else 16), *acc)
                # several datasets by list (given order != sorted path order, one nested) / glob
                if si % 3 == 0:
                    many = spec['npartitions'] >= 11
                    spec2 = {**spec, 'seed': spec['seed'] + 1, 'dirname': 'ds_a_east', 'voffset': 100000,
                             'npartitions': rep.rng.choice([2, 3] if many else [11, 12]), 'missing_head': 0}
                    spec2['nrows'] = max(spec2['npartitions'] * 2, 6)
                    spec4 = {**spec, 'seed': spec['seed'] + 3, 'dirname': os.path.join('dr_nest', 'in.2', 'c_mid'),
                             'voffset': 300000, 'npartitions': 2, 'missing_head': 0, 'nrows': 6,
                             'writer': 'to_parquet'}
                    ds2 = build_dataset(rep, s2, spec2)
                    ds4 = build_dataset(rep, s2, spec4)
                    if ds2 is not None and ds4 is not None:
                        b2 = _sample(rep.rng, boxes_for(rep.rng, rows0, nbox), 3 if quick else 8)
                        # given as b, a: not in sorted path order
                        check_read(rep, [ds, ds2], 'list', rep.rng.choice([None, other]), b2, *acc)
                        # the glob expands alphabetically: ds_a_east before ds_b_west
                        check_read(rep, [ds2, ds], 'glob', None, b2[:2], *acc)
                        check_read(rep, [ds2, ds], 'list', None, b2[:1], *acc)
                        check_read(rep, [ds, ds4, ds2], 'list', None, b2[:2], *acc)
                        check_read(rep, [ds2, ds4, ds], 'list', other, b2[:1], *acc)
                # provenance: cached bounds -> boolean-mask filter -> to_parquet
                if si % 2 == 0:
                    fspec = {'writer': 'filtered', 'filtered_from': {**spec, 'dirname': 'src_of_filtered'},
                             'seed': spec['seed'] + 7, 'dirname': 'flt_out',
                             'via': 'returned' if spec['writer'] == 'pack' and si % 4 == 0 else 'read_back',
                             'mask': 'isin' if si % 3 else 'threshold', 'select_columns': bool(si % 5 == 0),
                             'compression': spec.get('compression', 'snappy')}
                    dsf = build_dataset(rep, s2, fspec)
                    if dsf is not None:
                        dump_cases([dsf], *dm)
                        bf = boxes_for(rep.rng, extents(dsf, col0), nbox)
                        bf = bf[:2] + _sample(rep.rng, bf[7:], 3 if quick else 8)
                        check_read(rep, [dsf], 'single', None, bf, *acc)
                        check_read(rep, [dsf], 'single', other,
                                   _sample(rep.rng, boxes_for(rep.rng, extents(dsf, other), nbox), 2 if quick else 4),
                                   *acc)
                # state across calls on one frame object: write -> in-place column rename -> write again
                if si % 3 == 1:
                    rspec = {'writer': 'renamed', 'renamed_from': {**spec, 'writer': 'to_parquet', 'index': 'range'},
                             'seed': spec['seed'] + 11, 'mode': 'swap' if si % 2 else 'shift',
                             'touch_bounds': bool(si % 4 == 1)}
                    dsr = build_dataset(rep, s2, rspec)
                    if dsr is not None:
                        dump_cases([dsr, dsr['first']], *dm)
                        br = [(100, 100, 101, 101), (-100, -100, 100, 100)] + \
                            _sample(rep.rng, boxes_for(rep.rng, extents(dsr, dsr['geom'][0]), nbox)[7:], 2)
                        check_read(rep, [dsr], 'single', None, br, *acc)
                        check_read(rep, [dsr], 'single', dsr['geom'][1], br[:2], *acc)
                # load_divisions=True together with bounds= (packed datasets carry the hilbert_distance index;
                # a to_parquet dataset has none): against the same read without load_divisions
                if si % 4 == 1 or (spec['writer'] == 'pack' and si % 2 == 0):
                    check_divisions(rep, ds, [b0[1]] + _sample(rep.rng, b0[5:], 2))
                # the dataset without its _common_metadata file, read with bounds=: nothing recorded, nothing
                # pruned, the bounds shown are those of the rows (done last: the file is removed in place)
                if si % 4 == 2:
                    dsn = drop_common_metadata(ds)
                    bn = [b0[1]] + _sample(rep.rng, b0[5:], 3)
                    check_read(rep, [dsn], 'single', None, bn, *acc)
                    check_read(rep, [dsn], 'single', other, bn[:1], *acc)
                    rep.count(f'no-common-metadata:{spec["writer"]}')
                    continue
                if si % 6 == 1:
                    # ... and a dataset written by Dask's own writer (no spatialpandas metadata) next to it
                    spec3 = {**spec, 'seed': spec['seed'] + 2, 'tag': 'c', 'voffset': 200000, 'writer': 'plain',
                             'npartitions': 2, 'missing_head': 0, 'nrows': 6}
                    ds3 = build_dataset(rep, s2, spec3)
                    if ds3 is not None:
                        b3 = [(100, 100, 101, 101), (0, 0, 1, 1)]
                        check_read(rep, [ds, ds3], 'list', None, b3, *acc)
                        check_read(rep, [ds3], 'single', None, b3[:1], *acc)
        # coordinates that are not small integers (decimals, 16-17 significant digits, 1e-11, 2^53 / 1e16 /
        # 1e22, extents of a few ulps, float32 values, -0.0): stored JSON, exposed bounds and true extents
        # compared as exact binary64 values; boxes that touch an extent exactly / one ulp beyond
        mark('integral-datasets')
        fspecs = float_specs(rep, tier)
        for si, spec in enumerate(fspecs):
            with U.Scratch() as s2:
                quick = tier == 'quick'
                ds = build_dataset(rep, s2, {**spec, 'dirname': 'ds_b_float'}, pk)
                if ds is None:
                    continue
                dump_cases([ds], *dm)
                col0, other = ds['geom']
                rows0, rows1 = extents(ds, col0), extents(ds, other)
                b0 = F.fine_boxes(rep.rng, rows0, nbox)
                b0 = b0[:7] + _sample(rep.rng, b0[7:], 6 if quick else len(b0) - 7)
                check_read(rep, [ds], 'single', None, b0, *acc)
                b1 = F.fine_boxes(rep.rng, rows1, nbox)
                check_read(rep, [ds], 'single', other, _sample(rep.rng, b1[7:], 3 if quick else 12), *acc)
                rep.count(f'float-coords:{spec["coords"][0]}:{spec["writer"]}')
                nonint = sum(1 for r in rows0 + rows1 for v in r if math.isfinite(v) and v != int(v))
                rep.count('float-coords:non-integral-extent-values', nonint)
                if si % 5 == 0:
                    spec2 = {**spec, 'seed': spec['seed'] + 1, 'dirname': 'ds_a_float', 'voffset': 100000,
                             'npartitions': 2 if spec['npartitions'] >= 11 else 11, 'missing_head': 0}
                    spec2['nrows'] = spec2['npartitions'] * 2
                    ds2 = build_dataset(rep, s2, spec2)
                    if ds2 is not None:
                        dump_cases([ds2], *dm)
                        check_read(rep, [ds, ds2], 'list', None, _sample(rep.rng, b0[2:], 3), *acc)
                if si % 5 == 3:
                    check_read(rep, [drop_common_metadata(ds)], 'single', None, _sample(rep.rng, b0[2:], 2), *acc)
    mark('float-datasets')
    # model comparisons
    bad = F.coq_mismatches(IMPORTS, RB_FN, RB_CASE, RB_RES, rb[0], rb[1], shard=40)
    seen = set()
    for i in bad:
        m = rb[2][i]
        sig = 'bounds-after-read-differ' if m['box'] is None else 'prune-differs'
        if sig in seen:
            continue
        seen.add(sig)
        rep.violation(sig, ('_partition_bounds / kept partitions of read_parquet_dask differ from the model '
                            '(load of the stored JSON, concatenation, bounds= filter)'),
                      {**m, 'model': _model(f'({RB_FN})', rb[0][i])})
    stored_json_check(rep, dm)
    # optional extra on an internal (write_info): counted only
    bad = F.coq_mismatches(IMPORTS, PK_FN, PK_CASE, PK_RES, pk[0], pk[1], shard=40)
    if bad:
        rep.count('internal-differs:pack-layout', len(bad))
    rep.extra['internal_pack_layout_differ_from_model'] = len(bad)
    rep.extra['pack_layout_cases'] = len(pk[0])
    mark('model-evaluation')
    rep.extra['reads'] = cost[0]
    rep.extra['datasets'] = len(dm[0])
    for m, r in list(zip(rb[2], rb[1]))[:3]:
        rep.sample({k: m[k] for k in ('how', 'geometry', 'box', 'kept')})


def replay(rep, rp):
    import dask
    stream = rp.get('stream')
    with dask.config.set(scheduler='synchronous'), U.Scratch() as sc:
        if stream == 'natsort':
            U.natsort_check(rep, [rp['names']], 'C12')
        elif stream == 'synth':
            doc = [(col, [(c, [(k, float(v) if not isinstance(v, str) else float(v)) for k, v in e])
                          for c, e in cols]) for col, cols in rp['doc']]
            synth_check(rep, sc, [(rp.get('style', ''), doc)])
        else:
            rb = ([], [], [])
            dm = ([], [], [])
            pkr = ([], [], [])
            acc = (rb[0], rb[1], rb[2], [0])
            specs = rp['specs']
            if specs and 'rows' in specs[0]:
                run_corpus_entry(rep, sc, {'kind': 'points', 'rows': specs[0]['rows'],
                                           'npartitions': specs[0]['npartitions'],
                                           'boxes': [_unbox(rp['box'])] if rp.get('box') else []}, acc)
            else:
                dss = []
                def fix(sp):
                    sp = dict(sp)
                    for k in ('kinds', 'subtypes'):
                        if k in sp:
                            sp[k] = tuple(sp[k])
                    for k in ('filtered_from', 'renamed_from'):
                        if sp.get(k):
                            sp[k] = fix(sp[k])
                    return sp
                for j, spec in enumerate(specs):
                    spec = fix(spec)
                    if not spec.get('dirname'):
                        spec['tag'] = 'abcd'[j]
                    d = build_dataset(rep, sc, spec, pkr)
                    if d is not None and spec.get('drop_common_metadata'):
                        d = drop_common_metadata(d)
                    dss.append(d)
                if any(d is None for d in dss):
                    return False
                dump_cases(dss[:1], *dm)
                boxes = [_unbox(rp['box'])] if rp.get('box') else []
                if rp.get('load_divisions'):
                    check_divisions(rep, dss[0], boxes)
                else:
                    check_read(rep, dss, rp.get('how', 'single'), rp.get('geometry'), boxes, *acc)
            bad = F.coq_mismatches(IMPORTS, RB_FN, RB_CASE, RB_RES, rb[0], rb[1])
            for i in bad:
                print('model differs:', rb[2][i], _model(f'({RB_FN})', rb[0][i]))
                rep.violation('model', 'differs', {})
            stored_json_check(rep, dm)
    for v in rep.violations:
        print('still:', v['signature'], v['what'])
    return not rep.violations


def _unbox(b):
    return tuple(float(v) if isinstance(v, str) else v for v in b)
