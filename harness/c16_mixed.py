"""C16, second family: SEVERAL sources brought together, and derived-vs-fresh extras.

(A) multi-source histories.  Two or three source arrays (each fresh / sliced / taken /
    concatenated / pickled, so that buffers have offsets) whose dtypes are
      * equal,
      * the same kind with coordinate subtypes of the SAME width (int64/float64/uint64,
        int32/float32/uint32, int16/uint16, int8/uint8),
      * the same kind with subtypes of different width,
      * different kinds sharing one arrow storage type (line / ring / multipoint,
        multiline / polygon) or not,
    are cut into pieces (slices with any step) and brought together by pandas
    (pd.concat of GeoSeries with and without ignore_index, of DataFrames / GeoDataFrames
    holding them, with an extra column on one side; _concat_same_type directly when the
    dtypes are equal), then a short history follows on the result (iloc slice / take /
    boolean mask / reindex with fill / copy / pickle / re-wrapping the scalars in a
    GeoSeries or an array).  Whatever container pandas chooses (a geometry array when the
    dtypes are equal, an object Series of scalars otherwise) the ELEMENTS -- kind and
    coordinate values, exactly -- must be those Python's list semantics select from the
    sources.  Oracle: Model/DeriveMulti.v run_multi evaluated inside the Coq kernel on the
    sources' decoded buffers (coordinates are multiples of 1/4, scaled by 4), plus the same
    comparison in Python.  A re-wrap that raises is counted, not judged.

(B) derived-vs-fresh extras on the arrays the single-source histories produce: __eq__ with
    a shorter array / a scalar / None / a foreign object, _from_sequence of an array and of
    a single scalar, pd.factorize, Series.sort_values / argsort, scalar-level quantities
    (arr[i].length / .area / .intersects_bounds / len), and the rings read through
    buffer_values / buffer_inner_offsets: a derived array answers exactly as a fresh array
    of the same elements (same value bit for bit, or the same exception class).
"""
import copy
import math
import os
import pickle
import struct

import numpy as np

from . import common as C
from . import geomgen as G
from . import c16_util as U

IMPORTS = 'Model.Num Model.Arrow Model.Derive Model.DeriveMulti'
CASE_TY = 'multi_case'
RES_TY = 'list Z'
FN = 'check_multi'
SCALE = 4

CODES = {1: 'error-class', 2: 'not-wf', 3: 'null-spans-values', 4: 'decode-differs',
         5: 'isna-differs'}

SAME_WIDTH = [('int64', 'float64'), ('float64', 'int64'), ('float64', 'uint64'), ('uint64', 'int64'),
              ('int32', 'float32'), ('float32', 'int32'), ('uint32', 'float32'), ('int32', 'uint32'),
              ('int16', 'uint16'), ('uint8', 'int8')]
DIFF_WIDTH = [('float32', 'float64'), ('float64', 'float32'), ('int32', 'int64'), ('int64', 'float32'),
              ('int16', 'int32'), ('uint8', 'float64'), ('float64', 'int16')]
SAME = [('float64', 'float64'), ('int32', 'int32'), ('float32', 'float32'), ('int64', 'int64'),
        ('uint32', 'uint32')]
MIXED_KINDS = [('line', 'ring'), ('ring', 'line'), ('line', 'multipoint'), ('multipoint', 'ring'),
               ('multiline', 'polygon'), ('polygon', 'multiline'), ('point', 'multipoint'),
               ('line', 'point'), ('polygon', 'multipolygon')]
FORMS = ['series', 'series_idx', 'frame', 'geoframe', 'frame_extra']
PROVS = ['fresh', 'sliced', 'taken', 'concat', 'pickled']
NAME2KIND = {'Point': 'point', 'MultiPoint': 'multipoint', 'Line': 'line', 'Ring': 'ring',
             'MultiLine': 'multiline', 'Polygon': 'polygon', 'MultiPolygon': 'multipolygon'}
JITTED = ('float64', 'float32', 'int32')     # subtypes the single-source run compiles anyway


# --------------------------------------------------------------------------
# sources
# --------------------------------------------------------------------------
def _mapc(el, f):
    if el is None:
        return None
    if isinstance(el, list):
        return [_mapc(x, f) for x in el]
    return f(el)


def rand_els(rng, kind, subtype, n=None):
    """elements whose coordinates every subtype involved holds exactly: integers in a small
    range (non-negative for unsigned), plus quarters for the float subtypes"""
    n = rng.choice([0, 1, 2, 3, 4, 5]) if n is None else n
    unsigned = subtype.startswith('uint')
    lo, hi = (0, 12) if unsigned else (-6, 6)
    els = G.rand_elements(rng, kind, n, lo=lo, hi=hi, nan_p=0.0,
                          missing_p=rng.choice([0.2, 0.35, 0.0]), empty_p=0.12)
    if subtype.startswith('float'):
        els = [_mapc(e, lambda v: v + rng.choice([0, 0, 0.25, 0.5, 0.75, -0.5])) for e in els]
    return els


def build_source(kind, subtype, els, prov):
    """an array holding `els`, reached through the given provenance (buffers with offsets)"""
    cls = G.array_class(kind)
    if prov == 'sliced':
        pad = [e for e in els if e is not None][:1] or [None]
        return G.make_array(kind, pad + list(els) + pad, subtype)[1:len(els) + 1]
    if prov == 'taken':
        return G.make_array(kind, list(els)[::-1], subtype)[::-1]
    if prov == 'concat' and len(els) >= 1:
        h = len(els) // 2
        return cls._concat_same_type([G.make_array(kind, list(els[:h]), subtype),
                                      G.make_array(kind, list(els[h:]), subtype)])
    if prov == 'pickled':
        return pickle.loads(pickle.dumps(G.make_array(kind, list(els), subtype)))
    return G.make_array(kind, list(els), subtype)


# --------------------------------------------------------------------------
# reading what came back, through public means only
# --------------------------------------------------------------------------
def _is_missing(x):
    if x is None:
        return True
    try:
        return bool(np.isscalar(x) and np.isnan(x))
    except (TypeError, ValueError):
        return False


def read_scalar(sc):
    """(kind, nested lists) of one geometry scalar: it is put into a one-element array of
    its own class (for a point: of its own subtype, dtype inferred by the constructor) and
    read through the arrow protocol"""
    name = type(sc).__name__
    if name not in NAME2KIND:
        return ('?' + name, None)
    kind = NAME2KIND[name]
    cls = G.array_class(kind)
    a1 = cls._from_sequence([sc]) if kind == 'point' else cls._from_sequence([sc], dtype='float64')
    py = U.array_to_py(kind, a1)
    return (kind, None if py is None else py[0])


def geometry_array_of(obj):
    """the geometry array behind a Series / array, or None (object container)"""
    arr = getattr(obj, 'array', obj)
    if hasattr(arr, '__arrow_array__') and type(arr).__name__.endswith('Array') \
            and type(arr).__name__[:-5] in NAME2KIND:
        return arr
    return None


def read_container(obj):
    """list of None / (kind, value) for a Series or array of geometries"""
    arr = geometry_array_of(obj)
    if arr is not None:
        kind = NAME2KIND[type(arr).__name__[:-5]]
        py = U.array_to_py(kind, arr)
        if py is None:
            return None
        return [None if v is None else (kind, v) for v in py]
    return [None if _is_missing(x) else read_scalar(x) for x in list(obj)]


def cast_items(items, dt):
    """the items with every coordinate cast to numpy dtype dt as numpy casts values (float ->
    int truncates); None when some value lies outside dt's range (not judged)"""
    if dt is None:
        return list(items)
    dt = np.dtype(dt)
    out = []
    for it in items:
        if it is None:
            out.append(None)
            continue
        flat = [float(v) for v in G.flat_coords(it[1])]
        if dt.kind in 'iu' and flat:
            info = np.iinfo(dt)
            if any((not math.isfinite(v)) or v <= info.min - 1 or v >= info.max + 1
                   or (dt.kind == 'u' and v < 0) for v in flat):
                return None
        with np.errstate(all='ignore'):
            out.append((it[0], _mapc(it[1], lambda v: float(np.asarray(v).astype(dt)))))
    return out


def same_items(got, want):
    if got is None or len(got) != len(want):
        return False
    for g, w in zip(got, want):
        if g is None or w is None:
            if not (g is None and w is None):
                return False
        elif g[0] != w[0] or not U.same_elem(g[1], w[1]):
            return False
    return True


# --------------------------------------------------------------------------
# one multi-source history on the real library
# --------------------------------------------------------------------------
def _labels(k, n):
    return [f's{k}r{i}' for i in range(n)]


def combine(form, pieces_arr, rng_state):
    """pd.concat of the pieces in the given surface form; returns a Series (RangeIndex
    unless form == 'series_idx')"""
    import pandas as pd
    from spatialpandas import GeoDataFrame, GeoSeries
    if form == 'direct':
        return pd.Series(type(pieces_arr[0])._concat_same_type(list(pieces_arr)))
    if form == 'series':
        return pd.concat([GeoSeries(p) for p in pieces_arr], ignore_index=True)
    if form == 'series_idx':
        return pd.concat([GeoSeries(p, index=_labels(k, len(p))) for k, p in enumerate(pieces_arr)])
    if form == 'frame':
        return pd.concat([pd.DataFrame({'g': p, 'k': np.arange(len(p)) + 10 * j})
                          for j, p in enumerate(pieces_arr)], ignore_index=True)['g']
    if form == 'geoframe':
        return pd.concat([GeoDataFrame({'g': p, 'k': np.arange(len(p)) + 10 * j}, geometry='g')
                          for j, p in enumerate(pieces_arr)], ignore_index=True)['g']
    if form == 'frame_extra':
        fr = []
        for j, p in enumerate(pieces_arr):
            d = {'g': p, 'k': np.arange(len(p)) + 10 * j}
            if j % 2 == 0:
                d['only_even'] = np.arange(len(p)) * 1.5
            fr.append(pd.DataFrame(d))
        return pd.concat(fr, ignore_index=True)['g']
    raise ValueError(form)


def follow(s, st):
    """one follow-up step on the pandas object (positional)"""
    import pandas as pd
    from spatialpandas import GeoSeries
    op, form = st['op'], st.get('form', 'plain')
    if op == 'slice':
        return s.iloc[slice(*st['args'])]
    if op == 'take':
        ix, allow_fill, _ = st['args']
        if allow_fill:
            r = s.reset_index(drop=True)
            n = len(r)
            return r.reindex([i if i >= 0 else n + 5 + j for j, i in enumerate(ix)])
        if form == 'series_take':
            return s.take(list(ix))
        return s.iloc[list(ix)]
    if op == 'mask':
        m = np.array(st['args'], dtype=bool)
        if form == 'iloc':
            return s.iloc[m]
        return s[m] if form == 'getitem' else s.loc[m]
    if op == 'copy':
        if form == 'copy':
            return s.copy(deep=True)
        if form == 'pickle':
            return pickle.loads(pickle.dumps(s))
        if form == 'rewrap_geoseries':
            return GeoSeries(s)
        if form == 'rewrap_list':
            return GeoSeries(list(s))
        if form == 'rewrap_array':
            first = next((x for x in s if not _is_missing(x)), None)
            cls = G.array_class(NAME2KIND[type(first).__name__])
            return pd.Series(cls(list(s)))
        if form == 'rewrap_from_sequence':
            first = next((x for x in s if not _is_missing(x)), None)
            cls = G.array_class(NAME2KIND[type(first).__name__])
            return pd.Series(cls._from_sequence(list(s)))
        if form.startswith('rewrap_astype:'):
            return s.astype(form.split(':', 1)[1])
    raise ValueError((op, form))


class MOutcome:
    def __init__(self):
        self.case = None
        self.expected = None
        self.py_fail = None        # (signature, what)
        self.notes = {}


def run_multi(h, quant=True):
    """h: dict(sources=[(kind, subtype, els, prov)], pieces=[(k, a, b, s)], form, steps)"""
    out = MOutcome()
    srcs = []
    for kind, st, els, prov in h['sources']:
        try:
            srcs.append(build_source(kind, st, els, prov))
        except Exception as e:  # noqa: BLE001
            out.py_fail = ('construct', f'building a {kind}[{st}] source ({prov}) raised '
                                        f'{type(e).__name__}: {str(e)[:160]}')
            return out
    # the sources hold what they were built from (also: a source of the SECOND subtype built
    # after one of the first, in one process)
    reps = []
    coq_ok = True
    for (kind, st, els, prov), a in zip(h['sources'], srcs):
        got = read_container(a)
        want = [None if e is None else (kind, e) for e in els]
        if got is not None and not same_items(got, want):
            out.py_fail = ('source-differs', f'a {kind}[{st}] array built ({prov}) from {els!r} '
                                             f'holds {got!r}')
            return out
        if str(a.dtype) != f'{kind}[{st}]':
            out.py_fail = ('source-dtype', f'a {kind} array built with dtype={st!r} reports dtype '
                                           f'{a.dtype}')
            return out
        rp = U.export(kind, a, SCALE)
        if rp is None:
            coq_ok = False
        reps.append((U.elems_term(kind, els, SCALE), rp))
    # expected, by Python's own list semantics
    want = []
    parr = []
    for k, a, b, s in h['pieces']:
        kind, st, els, prov = h['sources'][k]
        want += [None if e is None else (kind, e) for e in els[slice(a, b, s)]]
        parr.append(srcs[k][slice(a, b, s)])
    res, err = None, None
    try:
        res = combine(h['form'], parr, None)
    except Exception as e:  # noqa: BLE001
        err = e
    steps_done = []
    if err is None:
        for j, st in enumerate(h['steps']):
            rewrap = st['op'] == 'copy' and st.get('form', '').startswith('rewrap')
            try:
                nxt = follow(res, st)
            except Exception as e:  # noqa: BLE001
                if rewrap:
                    # putting scalars of several subtypes / kinds into one array may be refused
                    out.notes['rewrap_raised'] = out.notes.get('rewrap_raised', 0) + 1
                    break
                out.py_fail = (f'unexpected-exception:{type(e).__name__}',
                               f'follow-up step {j} {st} on the concatenation raised '
                               f'{type(e).__name__}: {str(e)[:160]}')
                return out
            try:
                want2 = U.track(want, st)
            except Exception:  # noqa: BLE001 -- generator bug, not the library's
                break
            if rewrap:
                out.notes['rewrap_returned'] = out.notes.get('rewrap_returned', 0) + 1
                kinds = {w[0] for w in want2 if w is not None}
                if len(kinds) > 1:
                    break            # an explicit conversion between kinds: not a derivation
                got = read_container(nxt)
                a2 = geometry_array_of(nxt)
                # scalars of another subtype are converted BY VALUE to the subtype of the array
                # they are put into (numpy's cast); a value the target cannot hold is not judged
                want2c = cast_items(want2, None if a2 is None else U.subtype_of(a2))
                if want2c is None:
                    out.notes['rewrap_lossy_not_judged'] = out.notes.get('rewrap_lossy_not_judged', 0) + 1
                    break
                if got is not None and not same_items(got, want2c):
                    sts = sorted({s_[1] for s_ in h['sources']})
                    out.py_fail = ('rewrap-reinterprets-bytes' if len(sts) > 1 and 'point' in kinds
                                   else 'rewrap-differs',
                                   f'{st["form"]} of the concatenation {read_container(res)!r} '
                                   f'returned {got!r} (dtype {getattr(nxt, "dtype", None)}); '
                                   f'converted by value it would hold {want2c!r}')
                    break
                if not same_items(want2c, want2):
                    # values changed by the (legitimate) cast: judged here, the element-level
                    # model is not asked about conversions
                    out.notes['rewrap_cast_changed_values'] = \
                        out.notes.get('rewrap_cast_changed_values', 0) + 1
                    break
            res, want = nxt, want2
            steps_done.append(st)
    if err is not None:
        out.py_fail = (f'unexpected-exception:{type(err).__name__}',
                       f'pd.concat ({h["form"]}) of pieces with dtypes '
                       f'{[str(p.dtype) for p in parr]} raised {type(err).__name__}: '
                       f'{str(err)[:160]}')
        return out
    got = read_container(res)
    if out.py_fail is None and got is not None and not same_items(got, want):
        i = next((i for i, (g, w) in enumerate(zip(got, want)) if not same_items([g], [w])), -1)
        out.py_fail = ('elements-differ' if len(got) == len(want) else 'length-differs',
                       f'pd.concat ({h["form"]}) of pieces with dtypes {[str(p.dtype) for p in parr]}'
                       f'{" then " + str(steps_done) if steps_done else ""}: '
                       + (f'element {i} is {got[i]!r}, the source holds {want[i]!r}' if i >= 0
                          else f'length {len(got)} instead of {len(want)}')
                       + f'; the result is a {type(getattr(res, "array", res)).__name__}'
                         f' of dtype {getattr(res, "dtype", None)}')
    # a geometry array came back: it must also behave like a fresh one
    arr = geometry_array_of(res)
    if out.py_fail is None and arr is not None and quant and got is not None:
        kind = NAME2KIND[type(arr).__name__[:-5]]
        st = U.subtype_of(arr).name
        plain = [None if w is None else w[1] for w in want]
        try:
            fresh = G.make_array(kind, plain, st)
            f = None
            for name, fn in (('isna', lambda a: np.asarray(a.isna())),) + (
                    (('bounds', lambda a: np.asarray(a.bounds)),
                     ('total_bounds', lambda a: np.asarray(a.total_bounds, dtype='float64')),
                     ('length', lambda a: np.asarray(a.length)),
                     ('area', lambda a: np.asarray(a.area))) if st in JITTED else ()):
                if not U.same_array(fn(arr), fn(fresh)):
                    f = (f'quantity-differs:{name}',
                         f'{name} of the concatenation {fn(arr).tolist()!r} differs from that of a '
                         f'fresh array of the same elements {fn(fresh).tolist()!r}')
                    break
            if f is not None:
                out.py_fail = f
        except Exception as e:  # noqa: BLE001
            if not NOJIT:            # (un-jitted kernels are not the code under test)
                out.py_fail = (f'quantity-raises:{type(e).__name__}',
                               f'a quantity of the concatenation raised {type(e).__name__}: '
                               f'{str(e)[:160]}')
    # the kernel case
    if coq_ok:
        if arr is not None:
            kind = NAME2KIND[type(arr).__name__[:-5]]
            rp = U.export(kind, arr, SCALE)
            mres = None if rp is None else C.Rec('MRepr', rp)
        elif got is not None:
            mres = C.Rec('MElems', [None if g is None or g[1] is None or g[0] not in G.LEVELS
                                    else U.elem_term(g[0], g[1], SCALE) for g in got])
        else:
            mres = None
        if mres is not None:
            pieces = [(C.Nat(k), U._oz(a), U._oz(b), U._oz(s)) for k, a, b, s in h['pieces']]
            out.case = (reps, pieces, [U.step_term(st) for st in steps_done], C.Rec('Ok', mres))
            out.expected = [0] * (len(reps) + 1)
    return out


# --------------------------------------------------------------------------
# generation
# --------------------------------------------------------------------------
def _rand_slice(rng, n):
    r = rng.random()
    if r < 0.35:
        return (None, None, None)
    if r < 0.5:
        return (None, None, -1)
    k = rng.choice([None, None, 1, 2, -1, -2, 3])
    return (U._rand_bound(rng, n), U._rand_bound(rng, n), k)


def _rand_follow(rng, n, kinds_same):
    steps = []
    for _ in range(rng.choice([0, 0, 1, 1, 2, 3])):
        op = rng.choice(['slice', 'take', 'take', 'mask', 'fill', 'copy', 'rewrap'])
        if op == 'slice':
            st = {'op': 'slice', 'args': list(_rand_slice(rng, n)), 'form': 'plain'}
        elif op == 'take':
            ix = [rng.randint(-n, n - 1) for _ in range(rng.choice([0, 1, 2, n, n + 1]))] if n else []
            st = {'op': 'take', 'args': [ix, False, 'none'],
                  'form': rng.choice(['iloc', 'series_take'])}
        elif op == 'fill':
            ix = [rng.randint(-1, n - 1) for _ in range(rng.choice([1, 2, n + 1]))]
            st = {'op': 'take', 'args': [ix, True, 'none'], 'form': 'reindex'}
        elif op == 'mask':
            st = {'op': 'mask', 'args': [rng.random() < 0.6 for _ in range(n)],
                  'form': rng.choice(['iloc', 'getitem', 'loc'])}
        elif op == 'copy':
            st = {'op': 'copy', 'args': None, 'form': rng.choice(['copy', 'pickle'])}
        else:
            if not kinds_same or n == 0:
                continue
            st = {'op': 'copy', 'args': None,
                  'form': rng.choice(['rewrap_geoseries', 'rewrap_list', 'rewrap_array',
                                      'rewrap_from_sequence'])}
        steps.append(st)
        try:
            n = len(U.track(list(range(n)), st))
        except Exception:  # noqa: BLE001
            break
        if st['form'].startswith('rewrap'):
            break
    return steps


def _history(rng, specs, form=None, nsteps=None, whole=False):
    """specs: [(kind, subtype)] -> a history with one source per spec"""
    sources = []
    for kind, st in specs:
        els = rand_els(rng, kind, st, n=rng.choice([1, 2, 3, 4, 5]) if whole else None)
        sources.append((kind, st, els, rng.choice(PROVS)))
    order = list(range(len(sources)))
    if not whole:
        rng.shuffle(order)
        if rng.random() < 0.3:
            order.append(rng.randrange(len(sources)))
    pieces = []
    for k in order:
        a, b, s = (None, None, None) if whole else _rand_slice(rng, len(sources[k][2]))
        pieces.append((k, a, b, s))
    same_dtype = len({(k, s) for k, s in specs}) == 1
    forms = FORMS + (['direct'] if same_dtype else [])
    n = sum(len(sources[k][2][slice(a, b, s)]) for k, a, b, s in pieces)
    steps = _rand_follow(rng, n, len({k for k, _ in specs}) == 1) if nsteps is None else []
    return {'sources': sources, 'pieces': pieces, 'form': form or rng.choice(forms), 'steps': steps}


def generate(tier, rng):
    hs = []
    kinds = G.KINDS
    # enumerated: every kind x every subtype pair class x every surface form, whole sources
    for kind in kinds:
        for pairs, frac in ((SAME_WIDTH, 1.0), (DIFF_WIDTH, 0.6), (SAME, 0.6)):
            for s1, s2 in pairs:
                for form in FORMS:
                    if tier == 'quick' and rng.random() >= (0.5 if kind == 'point' else 0.2) * frac:
                        continue
                    hs.append(_history(rng, [(kind, s1), (kind, s2)], form=form, nsteps=0,
                                       whole=True))
    for k1, k2 in MIXED_KINDS:
        for st in ('float64', 'int32'):
            for form in FORMS:
                if tier == 'quick' and rng.random() >= 0.4:
                    continue
                hs.append(_history(rng, [(k1, st), (k2, st)], form=form, nsteps=0, whole=True))
    # re-wrapping the scalars of a concatenation (an object Series when the dtypes differ) in
    # one array: every subtype pair x every way of re-wrapping, for points (fixed-width storage:
    # the scalar's bytes are not self-describing) and one list kind
    for kind in ('point', rng.choice(kinds[1:])):
        for s1, s2 in SAME_WIDTH + DIFF_WIDTH + SAME[:2]:
            for rw in ('rewrap_geoseries', 'rewrap_list', 'rewrap_array', 'rewrap_from_sequence',
                       f'rewrap_astype:{kind}[{s1}]', f'rewrap_astype:{kind}[{s2}]'):
                if tier == 'quick' and kind != 'point' and rng.random() >= 0.3:
                    continue
                h = _history(rng, [(kind, s1), (kind, s2)], form=rng.choice(FORMS[:2]), nsteps=0,
                             whole=True)
                h['steps'] = [{'op': 'copy', 'args': None, 'form': rw}]
                hs.append(h)
    # random: pieces with steps, three sources, follow-up histories, re-wrapping
    nrand = 420 if tier == 'quick' else 6000
    for j in range(nrand):
        kind = kinds[j % 7] if rng.random() < 0.7 else 'point'
        r = rng.random()
        if r < 0.45:
            s1, s2 = rng.choice(SAME_WIDTH)
        elif r < 0.65:
            s1, s2 = rng.choice(DIFF_WIDTH)
        elif r < 0.85:
            s1, s2 = rng.choice(SAME)
        else:
            k1, k2 = rng.choice(MIXED_KINDS)
            st = rng.choice(['float64', 'int32', 'float32'])
            hs.append(_history(rng, [(k1, st), (k2, st)]))
            continue
        specs = [(kind, s1), (kind, s2)]
        if rng.random() < 0.25:
            specs.append((kind, rng.choice([s1, s2, 'float64'])))
        hs.append(_history(rng, specs))
    return hs


# --------------------------------------------------------------------------
# run / shrink / replay
# --------------------------------------------------------------------------
def _codes(case):
    import re
    txt = C.coq_eval(IMPORTS, f'{FN} {C.coq(case)}')
    return [int(x) for x in re.findall(r'-?\d+', txt)]


def fails(h):
    out = run_multi(h)
    if out.py_fail is not None:
        return out.py_fail
    if out.case is None:
        return None
    bad = C.coq_mismatches(IMPORTS, FN, CASE_TY, RES_TY, [out.case], [out.expected])
    if bad:
        codes = [0 if c == 3 else c for c in _codes(out.case)]
        if any(codes):
            first = next(c for c in codes if c)
            pos = next(i for i, c in enumerate(codes) if c)
            where = f'source {pos}' if pos < len(h['sources']) else 'the result'
            return (f'{CODES.get(first, "model")}:multi',
                    f'the kernel-evaluated model (Model/DeriveMulti.v run_multi) disagrees on '
                    f'{where}: {CODES.get(first, first)}; codes {codes}')
    return None


def shrink(h, sig, budget=40):
    cls = sig.split(':')[0]
    h = copy.deepcopy(h)
    tries = 0
    changed = True
    while changed and tries < budget:
        changed = False
        cands = []
        for i in range(len(h['steps'])):
            cands.append(dict(h, steps=h['steps'][:i] + h['steps'][i + 1:]))
        if len(h['pieces']) > 1:
            for i in range(len(h['pieces'])):
                cands.append(dict(h, pieces=h['pieces'][:i] + h['pieces'][i + 1:]))
        for i, p in enumerate(h['pieces']):
            if tuple(p[1:]) != (None, None, None):
                cands.append(dict(h, pieces=h['pieces'][:i] + [(p[0], None, None, None)]
                                  + h['pieces'][i + 1:]))
        for k, (kind, st, els, prov) in enumerate(h['sources']):
            if prov != 'fresh':
                cands.append(dict(h, sources=h['sources'][:k] + [(kind, st, els, 'fresh')]
                                  + h['sources'][k + 1:]))
            for i in range(len(els)):
                if any(p[0] == k and tuple(p[1:]) != (None, None, None) for p in h['pieces']) \
                        or any(s_['op'] != 'copy' for s_ in h['steps']):
                    continue
                cands.append(dict(h, sources=h['sources'][:k]
                                  + [(kind, st, els[:i] + els[i + 1:], prov)] + h['sources'][k + 1:]))
        for c in cands:
            tries += 1
            if tries > budget:
                break
            try:
                f = fails(c)
            except Exception:  # noqa: BLE001
                f = None
            if f and f[0].split(':')[0] == cls:
                h, changed = c, True
                break
    return h


def _jsonable(h):
    return {'sources': [list(s) for s in h['sources']], 'pieces': [list(p) for p in h['pieces']],
            'form': h['form'], 'steps': h['steps']}


def _unjson(d):
    return {'sources': [tuple(s) for s in d['sources']], 'pieces': [tuple(p) for p in d['pieces']],
            'form': d['form'], 'steps': d['steps']}


def run(rep, tier):
    rng = rep.rng
    hs = generate(tier, rng)
    cases, expected, metas, pyf = [], [], [], []
    for h in hs:
        out = run_multi(h)
        rep.evaluations += 1
        rep.count('multi:histories')
        kinds = {s[0] for s in h['sources']}
        sts = {s[1] for s in h['sources']}
        widths = {np.dtype(s).itemsize for s in sts}
        cls = ('mixed-kinds' if len(kinds) > 1 else 'same-dtype' if len(sts) == 1
               else 'same-width-subtypes' if len(widths) == 1 else 'different-width-subtypes')
        rep.count('multi:' + cls)
        rep.count('multi:form:' + h['form'])
        for k, v in out.notes.items():
            rep.count('multi:' + k, v)
        if any(e is not None for s in h['sources'] for e in s[2]):
            rep.nontrivial(('multi', repr(h)))
        if out.py_fail is not None:
            pyf.append((h, out.py_fail))
        if out.case is not None:
            cases.append(out.case); expected.append(out.expected); metas.append(h)
        rep.sample({'multi': _jsonable(h)}, cap=7)
    rep.extra['multi_histories'] = len(hs)
    bad = C.coq_mismatches(IMPORTS, FN, CASE_TY, RES_TY, cases, expected, shard=150) if cases else []
    rep.extra['multi_kernel_checked'] = len(cases)
    reported = {}
    for h, (sig, what) in pyf:
        kinds = sorted({s[0] for s in h['sources']})
        reported.setdefault(f'{sig}:{"+".join(kinds)}' if ':' not in sig or len(kinds) > 1
                            else f'{sig}:{kinds[0]}', (h, what))
    for i in bad[:20]:
        codes = _codes(cases[i])
        if all(c in (0, 3) for c in codes):
            rep.count('internal:null-slot-spans-values')
            continue
        first = next(c for c in codes if c not in (0, 3))
        kinds = sorted({s[0] for s in metas[i]['sources']})
        reported.setdefault(f'{CODES.get(first, "model")}:multi:{"+".join(kinds)}',
                            (metas[i], f'the kernel-evaluated model (run_multi) disagrees: codes {codes} '
                                       f'(one per source, then the result)'))
    for sig, (h, what) in list(reported.items())[:6]:
        try:
            h2 = shrink(h, sig, budget=30 if tier == 'quick' else 80)
            f = fails(h2)
            if f:
                what = f[1]
        except Exception as e:  # noqa: BLE001
            h2 = h
            what += f' (shrinking failed: {type(e).__name__})'
        rep.violation(sig, what, {'mixed': _jsonable(h2), 'unshrunk': _jsonable(h)})


def replay(rep, rp):
    h = _unjson(rp['mixed'])
    print('sources:', h['sources'])
    print('pieces :', h['pieces'], 'form:', h['form'], 'steps:', h['steps'])
    out = run_multi(h)
    ok = True
    if out.py_fail is not None:
        print('python-side:', out.py_fail)
        ok = False
    if out.case is not None:
        codes = _codes(out.case)
        print('kernel verdicts (one per source, then the result; 0 = agree):', codes)
        print('model:', C.coq_eval(IMPORTS, f'multi_model {C.coq(out.case)}')[:600])
        if any(c not in (0, 3) for c in codes):
            ok = False
    return ok


# ==========================================================================
# (B) derived-vs-fresh extras
# ==========================================================================
def _bits(x):
    """canonical, exact form of a result: floats by their bits (all NaNs alike)"""
    if x is None:
        return None
    if isinstance(x, (bool, np.bool_)):
        return bool(x)
    if isinstance(x, (int, np.integer)):
        return int(x)
    if isinstance(x, (float, np.floating)):
        f = float(x)
        return 'nan' if math.isnan(f) else struct.pack('<d', f).hex()
    if isinstance(x, np.ndarray):
        return [_bits(v) for v in x.tolist()]
    if isinstance(x, (list, tuple)):
        return [_bits(v) for v in x]
    return repr(x)


def _outcome(fn):
    try:
        return ('ok', _bits(fn()))
    except Exception as e:  # noqa: BLE001 -- the class is the datum
        return ('raised', type(e).__name__)


def _rings(el):
    """the innermost coordinate lists of an element, in order"""
    if el is None:
        return []
    if not el or not isinstance(el[0], list):
        return [list(el)]
    out = []
    for x in el:
        out += _rings(x)
    return out


def extras(kind, arr, fresh, want, rng):
    """None, or (signature, what).  `want` = the Python elements both arrays hold."""
    import pandas as pd
    n = len(want)
    cls = type(arr)
    probes = sorted({0, n - 1, rng.randrange(n)}) if n else []
    ops = []
    if n:
        ops.append(('== shorter array', lambda a: a == a[:-1]))
        ops.append(('== longer array', lambda a: a == cls._concat_same_type([a, a[:1]])))
    ops.append(('== None', lambda a: a == None))          # noqa: E711
    ops.append(('== 3', lambda a: a == 3))
    ops.append(('== "x"', lambda a: a == 'x'))
    for j in probes:
        ops.append((f'== arr[{j}]', lambda a, j=j: a == a[j]))
        ops.append((f'_from_sequence(arr[{j}])',
                    lambda a, j=j: U.array_to_py(kind, cls._from_sequence(a[j], dtype=a.dtype))
                    if a[j] is not None else None))
        ops.append((f'arr[{j}].length', lambda a, j=j: None if a[j] is None else a[j].length))
        ops.append((f'arr[{j}].area', lambda a, j=j: None if a[j] is None else a[j].area))
        for b in U.BOXES[:2]:
            ops.append((f'arr[{j}].intersects_bounds({b})',
                        lambda a, j=j, b=b: None if a[j] is None else bool(a[j].intersects_bounds(b))))
        if kind != 'point':
            ops.append((f'len(arr[{j}])', lambda a, j=j: None if a[j] is None else len(a[j])))
    ops.append(('_from_sequence(arr)', lambda a: U.array_to_py(kind, cls._from_sequence(a, dtype=a.dtype))))
    ops.append(('_from_sequence(list(arr))',
                lambda a: U.array_to_py(kind, cls._from_sequence(list(a), dtype=a.dtype))))

    def fact(a):
        codes, uniq = pd.factorize(a)
        return [codes.tolist(), U.array_to_py(kind, uniq) if hasattr(uniq, '__arrow_array__')
                else [None if _is_missing(x) else read_scalar(x)[1] for x in uniq]]
    ops.append(('pd.factorize', fact))
    ops.append(('argsort', lambda a: np.asarray(a.argsort()).tolist()))

    def sortv(a):
        s = pd.Series(a).sort_values()
        return [list(s.index), U.array_to_py(kind, s.array)]
    ops.append(('Series.sort_values', sortv))
    ops.append(('Series.sort_values(descending, na first)',
                lambda a: list(pd.Series(a).sort_values(ascending=False, na_position='first').index)))
    for name, fn in ops:
        d = _outcome(lambda: fn(arr))
        f = _outcome(lambda: fn(fresh))
        if d != f:
            return ('derived-vs-fresh:' + name.split('(')[0].split('[')[0].strip().replace(' ', '-'),
                    f'{name}: the derived array gives {d!r}, a fresh array of the same elements '
                    f'{want!r} gives {f!r}')
    # rings through buffer_values / buffer_inner_offsets (no missing element: a null slot may
    # legitimately span values of the parent buffer)
    if kind != 'point' and all(e is not None for e in want) \
            and not any(G.has_nonfinite(e) for e in want):
        def rings(a):
            bv, io = np.asarray(a.buffer_values), np.asarray(a.buffer_inner_offsets)
            return [[float(v) for v in bv[int(io[i]):int(io[i + 1])]] for i in range(len(io) - 1)]
        exp = [[float(v) for v in r] for e in want for r in _rings(e)] if G.LEVELS[kind] > 1 \
            else [[float(v) for v in e] for e in want]
        d = _outcome(lambda: rings(arr))
        if d != ('ok', _bits(exp)) and _outcome(lambda: rings(fresh)) == ('ok', _bits(exp)):
            try:
                shown = rings(arr)
            except Exception as e:  # noqa: BLE001
                shown = f'raised {type(e).__name__}'
            return ('derived-vs-fresh:buffer_inner_offsets',
                    f'buffer_values cut at buffer_inner_offsets gives {shown!r} on the derived '
                    f'array, the rings of its elements are {exp!r} (as a fresh array gives)')
    return None


NOJIT = bool(os.environ.get('NUMBA_DISABLE_JIT', '') not in ('', '0'))
