"""C09 — pack_partitions keeps every row and orders rows along the Hilbert curve.

Real `DaskGeoDataFrame.pack_partitions(npartitions, p)` (scheduler 'synchronous') on
frames of every geometry kind with missing / empty rows and two geometry columns, under
every split of the rows into consecutive input partitions (small n; empty input
partitions; input already sorted by key), npartitions in 1..8 (and the default), p in
{1, 5, 15, 20}, and on histories: warm partition-bounds cache (partition_sindex / cx /
parquet metadata) -> row filter shrinking the extent -> pack; pack -> set_geometry or filter ->
pack again (same / other partition count and p), each also compared with packing the same rows
from a fresh frame.  Checked on the real output:

  * same multiset of complete rows (all columns, geometry values) as the input;
  * the index of every row is that row's Hilbert distance, recomputed independently of
    Dask with GeoSeries.hilbert_distance(total_bounds=<the whole pandas frame's>, p);
  * index non-decreasing within and across partitions; exactly the requested number of
    partitions (really materialised, not only `.npartitions`);
  * for one frame and p: the ordered key list and the rows per key are the same for
    every input partitioning and npartitions;
  * Model/Pack.v (c09_case) evaluated by the Coq kernel on the exported input partitions
    (row id, bounds row, recomputed key) and output partitions (row id, index): the
    model's global total bounds = the real total_bounds, and the three oracle contracts
    of Spec/DaskSpec.v hold of what Dask returned.

  * Model/PackFloat.v (c09_float_case, binary64 on Coq's primitive floats) evaluated by the
    kernel on EVERY packing: the index value of every row equals the key the kernel computes
    from the bounds rows of the input partitions alone (per-partition bounds -> nanmin / nanmax
    -> widening -> (v - lo) * (n / width) -> clips -> Hilbert curve), bit for bit, so the
    reference for the key values does not rest on the library's own hilbert_distance.

Coordinates (harness/c09_float.py): small integers / half-integers (the exact model's regime) AND
floats: many-digit decimals in a narrow window, decimal grids whose extent is 2^p spacings,
centres on / next to the cell edges of the frame's own grid, extents of a few ulps at 1e6 .. 1e16,
magnitudes of 1e-11, windows across +-0.0 - through the plain path and through provenances
(ddf.to_parquet -> read_parquet_dask with bounds from the metadata, pack_partitions_to_parquet,
persist, repartition, warm index -> filter).  Large frames (600, 70 000, 140 000 rows of points /
lines on near-tie grids, 4 numba threads) are packed from one input partition and from several
smaller ones on both sides of 512 / 50 000 / 2^16 / 2^17 rows: same keys, and the kernel's.
The degenerate classes (all rows at one key, p = 1, 1..3 rows with 8 partitions requested) are
run with the property's expectation.

When the call or the computation raises ValueError (Dask cannot cut a frame whose rows
all share one key into several partitions) nothing is claimed: counted.
"""
import numpy as np

from . import common as C
from . import geomgen as G
from . import c06_util as U
from . import c06 as C06
from . import c09_float as F

ANCHOR_FILES = ['spatialpandas/dask.py', 'spatialpandas/geometry/base.py',
                'spatialpandas/geoseries.py']
TRUSTED = ['Dask set_index / repartition: oracle contracts of Spec/DaskSpec.v (permutation of rows, '
           'sorted keys, requested count), checked on the real Dask by this run, never proved',
           'key values: Model/PackFloat.v + Model/FloatData2Coord.v on Coq primitive floats (the '
           "kernel's binary64 operations = the machine's), compared bit for bit with the index of every "
           'packed frame; GeoSeries.hilbert_distance on the whole pandas frame is a second, redundant '
           'reference']

IMPORTS = 'Model.Num Model.Bounds Model.DaskModel Model.Pack'
CASE_TY = 'list (list (nat * bbox * N)) * list (list (nat * N)) * N'
RES_TY = 'bbox * bool * bool * bool'
FN = 'c09_case'

PS = [1, 5, 15, 20]


class NatN(int):
    """a Python int written as an N literal"""


def coqN(v):
    return C.Raw(f'{int(v)}%N')


def gen_specs(rep, tier):
    rng = rep.rng
    quick = tier == 'quick'
    specs = []

    def spec(kind, els, k2, els2, active, cuts, nps, ps, presort=False, repack=None):
        specs.append({'kind_g': kind, 'els_g': els, 'kind_h': k2, 'els_h': els2, 'active': active,
                      'cuts': cuts, 'nps': nps, 'ps': ps, 'presort': presort, 'repack': repack})

    # 0. fixed witnesses of the two recorded Dask limits (tied keys): fewer partitions than
    #    requested; deferred AssertionError of RepartitionToFewer
    els = C06.template('point', 0)
    k2, els2 = C06.second_column('point')
    spec('point', els, k2, els2, 'g', [0, 6], [3], [5])
    spec('point', els, k2, els2, 'g', [0, 6], [2], [5])
    # all rows share one key: one partition works, several = Dask raises, nothing claimed
    same = [[3, 3]] * 4
    spec('point', same, 'line', [[0, 0, 1, 1]] * 4, 'g', [0, 2, 4], [1, 3], [15])
    spec('line', [None] * 3, 'point', [[1, 1], [2, 2], None], 'g', [0, 1, 3], [1, 2], [5])
    # 0a. the classes on which Dask's set_index cannot deliver the requested partitions (the branch
    #     `if ddf.npartitions != npartitions: repartition` of pack_partitions is for them): all rows
    #     at one key (identical points with float coordinates, only missing rows) with 1, 2, 3
    #     partitions requested from 1 and 3 input partitions; p = 1 (at most four keys) with 2, 3, 8
    #     and the default; frames of 1, 2, 3 rows with 2, 8 and the default.  Expectation = the
    #     property's: rows, keys, order (fewer real partitions than requested = the known class
    #     'partition-count'; a raise = nothing claimed); npartitions as a numpy integer
    pt = [12.3456789, -45.678901]
    for cuts in ([0, 6], [0, 2, 4, 6]):
        spec('point', [pt] * 6, 'line', [[0.1, 0.2, 0.3, 0.4]] * 6, 'g', cuts, [1, 2, 3], [15])
        specs[-1]['float'] = True
    div = [[0.1, 0.1], [0.9, 0.9], [0.1, 0.9], [0.9, 0.1], [0.45, 0.45], [0.3, 0.7]]
    for cuts in ([0, 6], [0, 2, 4, 6]):
        spec('point', div, 'line', [[0.1, 0.2, 0.3, 0.4]] * 6, 'g', cuts, [1, 2, 3, 8, None], [1])
        specs[-1]['float'] = True
    for r in (1, 2, 3):
        spec('point', [[0.1 * (i + 1), 0.7 - 0.3 * i * i] for i in range(r)], 'line',
             [[0.1, 0.2, 0.3, 0.4]] * r, 'g', [0, r], [None, 8, 2], [15])
        specs[-1]['float'] = True
    spec('point', div, 'line', [[0.1, 0.2, 0.3, 0.4]] * 6, 'g', [0, 3, 6], ['np2', 'np3'], [15])
    specs[-1]['float'] = True
    #     all rows share a coordinate at 2^53 / -2^54, where the widening of the zero width by 1.0 is
    #     absorbed (since the repair of _data2coord an ordinary class: the axis without extent puts
    #     every row in the first cell, the other axis orders the rows)
    spec('point', [[2.0 ** 53, 0.5], [2.0 ** 53, 1.5], None, [2.0 ** 53, 0.25], [2.0 ** 53, 1.0]], 'line',
         [[0.5, -2.0 ** 54, 3.5, -2.0 ** 54], [1.5, -2.0 ** 54, 2.5, -2.0 ** 54], None,
          [0.1, -2.0 ** 54, 0.2, -2.0 ** 54], [0.7, -2.0 ** 54, 0.9, -2.0 ** 54]], 'g', [0, 2, 5], [1, 2], [15, 20])
    specs[-1]['float'] = True
    specs.append({**specs[-1], 'active': 'h', 'cuts': [0, 5]})
    # 0b. every p of the property's range on frames covering all four quadrants of the extent
    #     (distances in the second half of the curve, >= 2^(2p-1), occur)
    quad = [[0, 0], [8, 8], [0, 8], [8, 0], [6, 6], [2, 6], [6, 2], None, [1, 1], [7, 1]]
    spec('point', quad, 'line', [[i, 0, 8 - i, i] for i in range(10)], 'g', [0, 4, 10], [2],
         list(range(1, 21)))
    if not quick:
        for kind in G.KINDS:
            spec(kind, [None if q is None else U.shape(kind, q[0], q[1], q[0], q[1] + (kind != 'point'))
                        for q in quad], 'point', quad, rng.choice(['g', 'h']), [0, 3, 3, 10],
                 [1, 3], list(range(1, 21)))
    # 0c. npartitions omitted: 8 are requested whatever the input has (1, 8, 9, 12, 20 input
    #     partitions, some of them empty)
    els24, k24, els24h = C06.big_frame('point', 24)
    for cuts in ([0, 24], list(range(0, 24, 3)) + [24], list(range(0, 18, 2)) + [24],
                 [0, 0] + list(range(2, 22, 2)) + [24], list(range(0, 20)) + [24],
                 [0, 0, 0] + list(range(1, 17)) + [20, 24, 24]):
        spec('point', els24, k24, els24h, 'g', cuts, [None], [15])
    # A. one frame, every input partitioning, a few (npartitions, p)
    #    (the second frame of the quick tier has float coordinates: a decimal grid whose cell edges
    #    are near-ties for every p >= 5; its keys are decided by the binary64 model in the kernel)
    for kind in (['point', 'polygon'] if quick else G.KINDS):
        floaty = kind != 'point'
        if floaty:
            fs = F.float_frame_spec(rng, kind, 'grid', 5, n=6)
            els, k2, els2 = fs['els_g'], fs['kind_h'], fs['els_h']
        else:
            els = C06.template(kind, 0)
            k2, els2 = C06.second_column(kind)
        for cuts in U.compositions(len(els)) + [[0, 0, 2, 2, len(els)], [0, len(els), len(els)]]:
            nps = [rng.randint(1, 8)] if quick else [1, 2, 3, 5, 8]
            spec(kind, els, k2, els2, 'g', cuts, nps, [rng.choice(PS)] if quick else PS)
            specs[-1]['float'] = floaty
    # B. every kind x npartitions 1..8 x p, a few partitionings; both active columns
    for kind in G.KINDS:
        for t in ((0, 1) if quick else (0, 1, 2)):
            els = C06.template(kind, t)
            k2, els2 = C06.second_column(kind)
            for active in ('g', 'h'):
                cuts = rng.choice(U.compositions(6) + [[0, 0, 3, 3, 6]])
                nps = rng.sample(range(1, 9), 2) if quick else list(range(1, 9))
                spec(kind, els, k2, els2, active, cuts, nps + ([None] if t == 0 else []),
                     rng.sample(PS, 2) if quick else PS,
                     presort=(t == 1 and active == 'g'),
                     repack=(rng.randint(1, 4), rng.choice(PS)) if active == 'g' else None)
    # D. histories: warm cache -> row filter that shrinks the extent -> pack (the keys must be
    #    taken against the SUBSET's own total bounds); pack -> (set_geometry / filter) -> pack
    #    again, same and different partition count and p (the second packing must shuffle
    #    across the old partitions)
    def seq(kind, t, active, ops):
        els = C06.template(kind, t)
        k2, els2 = C06.second_column(kind)
        specs.append({'kind_g': kind, 'els_g': els, 'kind_h': k2, 'els_h': els2, 'active': active,
                      'cuts': rng.choice([[0, 6], [0, 2, 6], [0, 1, 3, 6], [0, 2, 4, 6]]),
                      'seq': ops, 'presort': False})
    subsets = [[0, 1, 5], [2, 3, 4], [0, 5], [1, 2, 3], [0, 2, 4, 5], [3, 4, 5]]
    for ki, kind in enumerate(G.KINDS):
        t = (ki + rep.seed) % 2
        other = 'h'
        n1, p1 = rng.choice([2, 3]), rng.choice([5, 15, 20])
        warm = ['sindex', 'cx', 'parquet', 'total_bounds']
        for j in range(3 if quick else 12):
            seq(kind, t, rng.choice(['g', 'g', 'h']),
                [['cache', warm[(ki + j) % 4]], ['filter_isin', subsets[(ki + 2 * j) % 6]],
                 ['pack', rng.randint(1, 3), rng.choice([5, 15, 20])]])
        seq(kind, t, 'g', [['pack', n1, p1], ['set_geometry', other], ['pack', n1, p1]])
        seq(kind, t, 'g', [['pack', n1, p1], ['cache', 'sindex'], ['filter_isin', rng.choice(subsets)],
                           ['pack', n1, rng.choice(PS)]])
        seq(kind, 1 - t, 'h', [['pack', 2, 15], ['set_geometry', 'g'], ['pack', 2, rng.choice([5, 20])],
                               ['set_geometry', 'h'], ['pack', 3, 15]])
        seq(kind, t, 'g', [['pack', 3, p1], ['pack', 2, p1], ['set_geometry', other], ['pack', 2, 5]])
        # cx / cx_partitions result (a box cutting through a partition) -> pack: the keys are
        # taken against the SELECTED rows' own total bounds
        cutbox = [[1.5, 4.5, 0.5, 3.5], [2.5, 7.5, 2.5, 7.5], [0, 3.5, 0, 8]][ki % 3]
        seq(kind, t, 'g', [['cx', cutbox], ['pack', rng.randint(1, 3), rng.choice([5, 15, 20])]])
        seq(kind, t, rng.choice(['g', 'h']), [['cxp', cutbox], ['pack', 2, rng.choice([5, 15])]])
        seq(kind, 1 - t, 'g', [['cache', 'sindex'], ['cx', [2.5, 7.5, 2.5, 7.5]], ['pack', 2, 15],
                               ['cx', [0, 6.5, 0, 6.5]], ['pack', 2, 15]])
        how = ['lazy', 'compute', 'pack', 'total_bounds'][(ki + rep.seed) % 4]
        seq(kind, t, 'g', [['sibling', 'h', how], ['pack', n1, p1]])
        seq(kind, 1 - t, 'h', [['cache', 'sindex'], ['sibling', 'g', 'lazy'], ['pack', 2, 15],
                               ['sibling', 'g', 'compute'], ['pack', 3, rng.choice(PS)]])
        if not quick:
            for _ in range(10):
                ops = []
                for _ in range(rng.randint(2, 4)):
                    r = rng.random()
                    if r < 0.3:
                        ops.append(['set_geometry', rng.choice(['g', 'h'])])
                    elif r < 0.5:
                        ops += [['cache', rng.choice(warm)], ['filter_isin', rng.choice(subsets)]]
                    ops.append(['pack', rng.randint(1, 4), rng.choice(PS)])
                seq(kind, rng.randint(0, 1), rng.choice(['g', 'h']), ops)
    # C. random frames
    for _ in range(25 if quick else 800):
        kind = rng.choice(G.KINDS)
        floaty = rng.random() < 0.4
        pp = rng.randint(1, 20) if floaty else rng.choice(PS)
        if floaty:
            fs = F.float_frame_spec(rng, kind, rng.choice(F.FLAVOURS), pp, n=rng.randint(3, 9))
            els, k2, els2 = fs['els_g'], fs['kind_h'], fs['els_h']
        else:
            els, k2, els2 = C06.random_frame(rng, kind)
        n = len(els)
        spec(kind, els, k2, els2, rng.choice(['g', 'g', 'h']), C06.random_cuts(rng, n),
             [rng.randint(1, 8)], [pp], presort=rng.random() < 0.2,
             repack=(rng.randint(1, 4), rng.choice(PS)) if rng.random() < 0.2 else None)
        specs[-1]['float'] = floaty
    # F. frames with float coordinates of every flavour, and their provenances (c09_float.py)
    specs += F.gen_float_specs(rep, tier)
    return specs


def keys_of(df, p):
    """{row id: Hilbert distance} computed on the whole pandas frame, without Dask"""
    s = df.geometry
    hd = s.hilbert_distance(total_bounds=s.total_bounds, p=p)
    return {int(v): int(k) for v, k in zip(df['v'].tolist(), hd.tolist())}


def check_packing(ctx, spec, df, X, npart, p, tag, baseline):
    rep = ctx['rep']
    info = {'spec': spec, 'npartitions': npart, 'p': p, 'stage': tag}
    if isinstance(npart, str):          # 'np3': the count as a numpy integer
        npart = np.int64(int(npart[2:]))
        rep.count('npartitions-numpy-integer')
    req = 8 if npart is None else int(npart)
    try:
        P = X.pack_partitions(npartitions=npart, p=p)
        parts = U.compute_parts(P)
        whole = P.compute()
    except ValueError as e:
        rep.count('unclaimed:ValueError')
        ctx['unclaimed'].append(str(e)[:60])
        return None
    except Exception as e:
        import traceback
        tb = traceback.format_exc()
        name = type(e).__name__
        key = keys_of(df, p)
        # Dask's limit: equal keys cannot be split, and n partitions need n + 1 distinct
        # division values taken from the keys
        tied = len(set(key.values())) < len(key) or len(set(key.values())) <= req
        if len(set(key.values())) <= 1 and req > 1:
            # all rows share one key and several partitions were requested: nothing claimed
            rep.count('unclaimed:' + name)
            ctx['unclaimed'].append(name)
            return None
        try:
            # the input is itself a packed frame whose .npartitions echoes a request that
            # Dask did not meet (known class 'partition-count'): the decision to repartition
            # is then taken on a count that is not real
            lying_input = X.npartitions != len(X.to_delayed())
        except Exception:
            lying_input = False
        try:
            # Dask's set_index itself (approximate quantile divisions on a tiny frame) delivers
            # fewer real partitions than its .npartitions reports: the same mechanism
            si = X._with_hilbert_distance_column(p).set_index(
                'hilbert_distance', npartitions=req, shuffle_method='tasks')
            lying_set_index = len(si.divisions) - 1 != si.npartitions
        except Exception:
            # the private helper is not there: Dask's own assertion site decides alone
            rep.count('internal-unavailable:_with_hilbert_distance_column')
            lying_set_index = True
        if isinstance(e, AssertionError) and not (
                '_repartition.py' in tb and '_partitions_boundaries' in tb
                and (tied or lying_input or lying_set_index)):
            name = 'AssertionError-elsewhere'   # only Dask's RepartitionToFewer on tied keys is known
        rep.violation(f'compute-raises:{name}',
                      f'pack_partitions(npartitions={npart}, p={p}) returned a frame whose '
                      f'computation raises {type(e).__name__}: {str(e)[:150]} '
                      f'(keys {sorted(key.values())})', {**info, 'trace': tb[-600:]})
        return None
    rep.evaluations += 1
    rep.count('kind:' + (spec['kind_g'] if spec['active'] == 'g' else spec['kind_h']))
    import pandas as pd
    out = pd.concat(parts) if parts else df.iloc[:0]
    if U.frame_sig(out) != U.frame_sig(whole):
        rep.violation('compute-is-not-concat', 'P.compute() differs from the concatenation of '
                      'the partitions of P', info)
        return None
    key = keys_of(df, p)
    an = U.active_name(df)
    # rows
    cols = list(df.columns)
    if list(out.columns) != cols or U.active_name(P) != an or U.active_name(out) != an:
        rep.violation('columns-or-geometry-changed',
                      f'packed frame has columns {list(out.columns)} / active geometry '
                      f'{U.active_name(out)!r} (collection meta: {U.active_name(P)!r}), input {cols} / {an!r}', info)
        return None
    a = sorted(r[1:] for r in U.frame_sig(out))
    b = sorted(r[1:] for r in U.frame_sig(df))
    if a != b:
        rep.violation('rows-not-conserved',
                      f'pack_partitions(npartitions={npart}, p={p}): the packed rows are not the '
                      f'input rows: {len(a)} rows out, {len(b)} in', info)
        return None
    # binary64 model: input partitions
    if ctx.get('in_parts_of') is not X:
        ctx['in_parts_of'], ctx['in_parts'] = X, U.compute_parts(X)
    in_parts = ctx['in_parts']
    rows = np.asarray(df.geometry.bounds.values, dtype='float64')
    if len(in_parts) != X.npartitions:
        rep.count('input-npartitions-attribute-differs')
    # (a) binary64: the kernel computes every key from the bounds rows of the input partitions
    #     (Model/PackFloat.v) and compares them with the index of the packed frame
    fb = {int(v): [float(x) for x in r] for v, r in zip(df['v'].tolist(), rows)}
    if all(int(i) >= 0 for q in parts for i in q.index.tolist()):   # (negative: 'key-out-of-range' below)
        ctx['fcases'].append(F.float_case(
            [[(int(v), fb[int(v)]) for v in q['v'].tolist()] for q in in_parts],
            [[(int(v), int(i)) for v, i in zip(q['v'].tolist(), q.index.tolist())] for q in parts], req, p))
        ctx['fresults'].append((True, True, True, len(parts) == req))
        ctx['fmetas'].append(info)
        rep.count('float-model-case')
    # index = own key
    idx = [int(i) for i in out.index.tolist()]
    vs = [int(v) for v in out['v'].tolist()]
    wrong = [(v, i, key[v]) for v, i in zip(vs, idx) if key[v] != i]
    if wrong or out.index.name != 'hilbert_distance':
        rep.violation('index-is-not-own-key',
                      f'row v={wrong[0][0] if wrong else "?"} is indexed {wrong[0][1] if wrong else out.index.name!r} '
                      f'but its Hilbert distance against the whole frame is '
                      f'{wrong[0][2] if wrong else "?"} (p={p})', info)
        return None
    if any(type(i) is not int or i < 0 or i >= 4 ** p for i in idx):
        rep.violation('key-out-of-range', f'an index value lies outside [0, 4^{p}): {idx}', info)
        return None
    if max(idx, default=0) >= 2 ** (2 * p - 1):
        rep.count('second-half-of-curve')
        rep.count(f'p={p}:second-half')
    if len(set(key.values())) > 1:
        rep.nontrivial((spec['kind_g'], spec['active'], repr(spec['els_g']), repr(spec['cuts']),
                        npart, p, tag, repr(spec.get('seq')), spec.get('seq_step')))
    if any(len(q) == 0 for q in parts):
        rep.count('empty-output-partition')
    if len(set(idx)) < len(idx):
        rep.count('tied-keys')
    # sorted
    if idx != sorted(idx):
        rep.violation('not-sorted', f'keys not non-decreasing across the output: {idx}', info)
    # count
    if len(parts) > req:
        rep.violation('partition-count-more',
                      f'pack_partitions(npartitions={npart}, p={p}) computes to {len(parts)} '
                      f'partitions, more than the {req} requested', info)
    elif len(parts) == req and P.npartitions != req:
        rep.violation('npartitions-attribute',
                      f'.npartitions={P.npartitions} but {len(parts)} partitions are computed', info)
    elif len(parts) < req and (P.npartitions != req or idx != sorted(idx)):
        rep.violation('partition-count-inconsistent',
                      f'asked for {req}, .npartitions={P.npartitions}, computes to {len(parts)}', info)
    elif len(parts) < req:
        # known class: fewer real partitions than requested while .npartitions echoes the
        # request; rows, keys and order were found right above
        rep.violation('partition-count',
                      f'pack_partitions(npartitions={npart}, p={p}) was asked for {req} partitions, '
                      f'says .npartitions={P.npartitions} and computes to {len(parts)} '
                      f'(keys {idx})', info)
    # independence of the input partitioning
    rows_by_key = {}
    for v, i in zip(vs, idx):
        rows_by_key.setdefault(i, set()).add(v)
    if p in baseline:
        if baseline[p] != (idx, rows_by_key):
            rep.violation('depends-on-input-partitioning',
                          'two packings of the same rows (different input partitioning or '
                          'npartitions) differ in their ordered keys or rows per key', info)
    else:
        baseline[p] = (idx, rows_by_key)
    # exact (option Z) model: global total bounds and the three contracts
    if spec.get('float'):
        rep.count('float-coordinates')
        rep.count('float-flavour:' + str(spec.get('flavour', 'fixed')))
        return P
    br = {int(v): U.cbox(r) for v, r in zip(df['v'].tolist(), rows)}
    ctx['cases'].append(([[(C.Nat(int(v)), br[int(v)], coqN(key[int(v)])) for v in q['v'].tolist()]
                          for q in in_parts],
                         [[(C.Nat(int(v)), coqN(int(i))) for v, i in zip(q['v'].tolist(), q.index.tolist())]
                          for q in parts],
                         coqN(req)))
    ctx['results'].append((U.cbox(tuple(float(x) for x in X.geometry.total_bounds)),
                           True, True, len(parts) == req))
    ctx['metas'].append(info)
    return P


def run_seq(ctx, spec, df, X):
    """a history of cache warm-ups, row filters, set_geometry and packings; `ref` is the pandas
    frame that holds the same rows with the same active geometry at every step"""
    import os
    import shutil
    import tempfile
    from spatialpandas.io import read_parquet_dask
    rep = ctx['rep']
    ref = df
    tmpdirs = []
    npacks = 0
    try:
        for k, op in enumerate(spec['seq']):
            if op[0] == 'cache':
                if op[1] == 'sindex':
                    X.partition_sindex
                elif op[1] == 'cx':
                    X.cx[0:8, 0:8].compute()
                elif op[1] == 'total_bounds':
                    X.partition_sindex
                    X.geometry.total_bounds
                elif op[1] == 'parquet':
                    d = tempfile.mkdtemp(prefix='sp_c09_')
                    tmpdirs.append(d)
                    path = os.path.join(d, 'f.parq')
                    X.to_parquet(path)
                    X = read_parquet_dask(path)
                    ref = ref.set_geometry(U.active_name(X))
                    X.partition_sindex
                rep.count('warm-cache:' + op[1])
            elif op[0] == 'provenance':
                # how the frame reaches pack_partitions; what these operations do themselves is the
                # business of C10 / C11 / C20: when one raises, the frame stays what it was
                try:
                    if op[1] in ('to_parquet', 'to_parquet_sindex'):
                        d = tempfile.mkdtemp(prefix='sp_c09_')
                        tmpdirs.append(d)
                        path = os.path.join(d, 'f.parq')
                        X.to_parquet(path)
                        X = read_parquet_dask(path)
                        ref = ref.set_geometry(U.active_name(X))
                        if op[1] == 'to_parquet_sindex':
                            X.partition_sindex
                    elif op[1] == 'pack_to_parquet':
                        d = tempfile.mkdtemp(prefix='sp_c09_')
                        tmpdirs.append(d)
                        X = X.pack_partitions_to_parquet(os.path.join(d, 'p.parq'), npartitions=2, p=10)
                        ref = ref.set_geometry(U.active_name(X))
                    elif op[1] == 'persist':
                        X.partition_sindex
                        X = X.persist()
                    elif op[1] == 'repartition':
                        X.partition_sindex
                        X = X.repartition(npartitions=X.npartitions + 1)
                    rep.count('provenance:' + op[1])
                except Exception as e:
                    rep.count(f'provenance-raised:{op[1]}:{type(e).__name__}')
            elif op[0] == 'filter_isin':
                X = X[X.v.isin(op[1])]
                ref = ref[ref.v.isin(op[1])]
                rep.count('filtered-before-pack')
            elif op[0] == 'set_geometry':
                X = X.set_geometry(op[1])
                ref = ref.set_geometry(op[1])
            elif op[0] == 'cx':
                xs, ys = U.key_slices(tuple(op[1]))
                X = X.cx[xs, ys]
                ref = ref.cx[xs, ys]
                rep.count('cx-before-pack')
            elif op[0] == 'cxp':
                xs, ys = U.key_slices(tuple(op[1]))
                X = X.cx_partitions[xs, ys]
                ref = X.compute()           # whole partitions: which ones is C06's business
                rep.count('cx_partitions-before-pack')
            elif op[0] == 'sibling':
                # derive another frame from X (X itself must stay what it was)
                other = X.set_geometry(op[1])
                try:
                    if op[2] == 'compute':
                        other.compute()
                    elif op[2] == 'pack':
                        other.pack_partitions(npartitions=2, p=5).compute()
                    elif op[2] == 'total_bounds':
                        other.geometry.total_bounds
                except Exception as e:   # the sibling is only there to exist; its own packing
                    rep.count('sibling-op-raised:' + type(e).__name__)   # is checked elsewhere
                rep.count('sibling-derived')
                if U.active_name(X) != U.active_name(ref):
                    rep.violation('sibling-changed-parent',
                                  f'deriving ddf.set_geometry({op[1]!r}) changed the active geometry '
                                  f'of ddf itself to {U.active_name(X)!r}', {'spec': spec})
                # go on: the packing below is still checked against the parent's own column
            elif op[0] == 'pack':
                n, p = op[1], op[2]
                tag = 'pack' if npacks == 0 else 'repack'
                info = {**spec, 'seq_step': k}
                baseline = {}
                if len(ref):
                    # the same rows packed from a fresh single-partition frame
                    fresh = U.dask_from_chunks(ref.reset_index(drop=True), [0, len(ref)])
                    check_packing(ctx, info, ref.reset_index(drop=True), fresh, n, p, 'fresh',
                                  baseline)
                P = check_packing(ctx, info, ref, X, n, p, tag, baseline)
                if P is None:
                    return
                npacks += 1
                if npacks > 1:
                    rep.count('repacked')
                X = P
                ref = P.compute()
                ref.index = range(len(ref))
    finally:
        for d in tmpdirs:
            shutil.rmtree(d, ignore_errors=True)


def run_spec(ctx, spec):
    rep = ctx['rep']
    df = U.make_frame(spec['kind_g'], spec['els_g'], spec['kind_h'], spec['els_h'],
                      active=spec['active'])
    if spec['presort']:
        k = keys_of(df, 15)
        order = sorted(range(len(df)), key=lambda i: k[int(df['v'].iloc[i])])
        df = df.iloc[order]
        rep.count('presorted-input')
    X = U.dask_from_chunks(df, spec['cuts'])
    if 'seq' in spec:
        return run_seq(ctx, spec, df, X)
    try:
        # optional look at the private helper; the public observation is the packing with
        # npartitions=None below (8 partitions requested for a small frame)
        d8, d3 = X._compute_packing_npartitions(None), X._compute_packing_npartitions(3)
    except Exception:
        rep.count('internal-unavailable:_compute_packing_npartitions')
        d8, d3 = 8, 3
    if d8 != 8 or d3 != 3:
        rep.violation('default-npartitions', '_compute_packing_npartitions(None) is not 8 for a '
                      'small frame', {'spec': spec})
    baseline = {}
    for npart in spec['nps']:
        for p in spec['ps']:
            P = check_packing(ctx, spec, df, X, npart, p, 'pack', baseline)
            if P is not None and spec['repack'] and npart == spec['nps'][0] and p == spec['ps'][0]:
                n2, p2 = spec['repack']
                packed = P.compute()   # computed once already in check_packing
                packed.index = range(len(packed))   # the reference frame without the stale key
                check_packing(ctx, {**spec, 'repacked_after': [npart, p]}, packed, P, n2, p2,
                              'repack', {})
                rep.count('repacked')


def flush(ctx):
    rep = ctx['rep']
    bad = C.coq_mismatches(IMPORTS, FN, CASE_TY, RES_TY, ctx['cases'], ctx['results'], shard=60)
    for i in bad[:10]:
        model = C.coq_eval(IMPORTS, f"{FN} {C.coq(ctx['cases'][i])}")
        rep.violation('model-differs',
                      'global total bounds or one of the set_index / repartition contracts '
                      '(permutation, sorted, count) fails on the real output: (total bounds, '
                      f'perm, sorted, count) = {model}',
                      {**ctx['metas'][i], 'case': ctx['cases'][i], 'impl': ctx['results'][i],
                       'model': model})
    bad = C.coq_mismatches(F.IMPORTS, F.FN, F.CASE_TY, F.RES_TY, ctx['fcases'], ctx['fresults'], shard=40)
    seen = set()
    for i in bad:
        meta = ctx['fmetas'][i]
        try:
            verdict = C.coq_eval(F.IMPORTS, f"{F.FN} {C.coq(ctx['fcases'][i])}")
        except Exception as e:
            verdict = 'not evaluated: ' + repr(e)[:200]
        flags = [w == 'true' for w in verdict.replace('(', ' ').replace(')', ' ').replace(',', ' ').split()]
        if len(flags) == 4 and not flags[0]:
            sig = 'model-raises-real-returns'
        elif len(flags) == 4 and not flags[1]:
            sig = 'index-differs-from-float-model'
        else:
            sig = 'float-model-differs'
        if sig in seen:
            continue
        seen.add(sig)
        in_rows = [[str(x) for x in q] for q in ctx['fcases'][i][0]]
        rep.violation(sig,
                      'the index of the packed frame is not the Hilbert distance of each row\'s bounds row '
                      'against the total bounds of the whole frame as Model/PackFloat.v computes it on '
                      'binary64 in the Coq kernel (returns, same (key,row) pairs, sorted, count) = '
                      f'{verdict}; real output partitions (row id, index): '
                      f"{[[str(x) for x in q] for q in ctx['fcases'][i][1]]}",
                      {**meta, 'input_partitions (row id, bounds row)': in_rows, 'model_verdict': verdict})
    rep.extra['float_model_cases'] = len(ctx['fcases'])
    rep.extra['model_cases'] = len(ctx['cases'])
    rep.extra['unclaimed_value_errors'] = len(ctx['unclaimed'])


def run(rep):
    import dask
    import numba
    tier = getattr(rep, 'tier_run', rep.tier)
    rep.rule = ('frames of 7 kinds (missing / empty rows, two geometry columns, either active) x '
                'every split of 6 rows into consecutive input partitions (+ empty input partitions, '
                'presorted input, random frames of <= 9 rows) x npartitions 1..8 / default x p in '
                '{1,5,15,20} (+ histories: warm cache -> filter -> pack; pack -> set_geometry / filter -> '
                'pack again, vs a fresh frame of the same rows); coordinates: small integers and floats '
                '(decimal windows, decimal grids of 2^p spacings, centres on cell edges +- 2 ulps, extents of a '
                'few ulps at 1e6..1e16, 1e-11, across +-0.0), also through to_parquet -> read_parquet_dask / '
                'pack_partitions_to_parquet / persist / repartition; frames of 600 / 70 000 / 140 000 rows from '
                'one and from several input partitions (4 numba threads); the index of every packed frame is '
                'compared with Model/PackFloat.v (binary64) in the kernel; one evaluation = one computed packing; '
                'non-trivial = at least two distinct keys; distinct = distinct '
                '(frame, partitioning, npartitions, p)')
    ctx = {'rep': rep, 'cases': [], 'results': [], 'metas': [], 'unclaimed': [],
           'fcases': [], 'fresults': [], 'fmetas': []}
    import time
    t0 = time.time()
    numba.set_num_threads(1)
    with dask.config.set(scheduler='synchronous'):
        for spec in gen_specs(rep, tier):
            try:
                run_spec(ctx, spec)
            except Exception as e:
                import traceback
                rep.violation('harness-or-library-raises', f'{type(e).__name__}: {str(e)[:300]}',
                              {'spec': spec, 'trace': traceback.format_exc()[-1500:]})
        t1 = time.time()
        # large frames on both sides of the size thresholds, several numba threads
        F.run_big(rep, F.gen_big_specs(rep, tier))
    t2 = time.time()
    flush(ctx)
    rep.extra['seconds (small frames, large frames + kernel, kernel on small frames)'] = \
        [round(t1 - t0), round(t2 - t1), round(time.time() - t2)]


def replay(rep, rp):
    import dask
    import numba
    if 'big' in rp:
        with dask.config.set(scheduler='synchronous'):
            F.run_big(rep, [rp['big']])
        for v in rep.violations:
            print(v['signature'], '-', v['what'])
        return not rep.violations
    spec = dict(rp['spec'])
    if 'npartitions' in rp and 'seq' not in spec:
        spec['nps'] = [rp['npartitions']] if rp.get('stage') != 'repack' else spec['nps'][:1]
        spec['ps'] = [rp['p']] if rp.get('stage') != 'repack' else spec['ps'][:1]
    spec.pop('repacked_after', None)
    spec.pop('seq_step', None)
    ctx = {'rep': rep, 'cases': [], 'results': [], 'metas': [], 'unclaimed': [],
           'fcases': [], 'fresults': [], 'fmetas': []}
    numba.set_num_threads(1)
    with dask.config.set(scheduler='synchronous'):
        run_spec(ctx, spec)
    flush(ctx)
    for v in rep.violations:
        print(v['signature'], '-', v['what'])
    return not rep.violations
