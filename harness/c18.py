"""C18 — results do not depend on scheduling, thread count or concurrent use.

The theorems (coq/Properties/C18.v) are about three state machines; this run validates the
assumptions those machines make about the real code and checks the property directly:

 (1) footprint observation: every prange / parallel kernel is run (NUMBA_DISABLE_JIT=1) with a
     recording array as `result`; the observed iterations (number, stores) are replayed by
     Model/Sched.v inside the Coq kernel, in the observed and in the reverse order, and must
     give the array the kernel returned; every store of iteration i must hit cell i;
 (2) the listed operations under scheduler x num_workers x NUMBA_NUM_THREADS x seeded delays
     (wrapping filesystem, tiny switch interval): digests equal to the synchronous
     single-thread run's; the recorded filesystem trace of threaded
     pack_partitions_to_parquet runs, replayed in the model, must give the real tree and the
     tree of the model's sequential execution;
 (3) 8 client threads sharing one fresh array / series / frame / R-tree / Dask collection each
     get the single-threaded answer; the recorded order of their accesses to the cache cell
     is replayed by the model's cache machine, which must predict the same kinds of access
     and a returned value for every thread.
"""
import concurrent.futures as cf
import json
import os
import re
import subprocess
import sys

from . import common as C

ANCHOR_FILES = ['spatialpandas/geometry/baselist.py', 'spatialpandas/geometry/_algorithms/intersection.py',
                'spatialpandas/geometry/point.py', 'spatialpandas/geometry/base.py',
                'spatialpandas/spatialindex/rtree.py', 'spatialpandas/dask.py', 'spatialpandas/utils.py']
TRUSTED = ['numba\'s threading layer, the GIL and Dask\'s scheduler are NOT in the model: an execution of '
           'the model is an interleaving of the atomic steps of Model/Sched.v; the real runtime is '
           'exercised (schedulers x workers x numba threads x delays x client threads), not proved',
           'the write footprint of a prange iteration is observed on the Python execution of the kernel '
           '(NUMBA_DISABLE_JIT=1), assumed to be what the compiled kernel does',
           'C18_reduction_chunking_refuted is evaluated on Coq\'s primitive binary64 floats (PrimFloat.add / eqb, kernel '
           'primitives); what a freed block holds when numpy / malloc hand it out again is observed, not modelled: the '
           'model quantifies over every content of the buffer']

IMPORTS = 'Model.FS Model.Sched'
BASE_SEED = [0]          # the seed of the run: the inputs every worker process must share
NUMBA_THREADS = [1, 2, 4, 16]


SPAWN_SECONDS = {}


def _spawn(what, seed, tier, env_extra):
    import time
    t0 = time.time()
    try:
        return _spawn1(what, seed, tier, env_extra)
    finally:
        SPAWN_SECONDS[what + ''.join(f' {k}={v}' for k, v in sorted(env_extra.items()) if k.startswith('NUMBA'))] = \
            round(time.time() - t0, 1)


def _spawn1(what, seed, tier, env_extra):
    env = dict(os.environ)
    env.update(env_extra)
    env['PYTHONPATH'] = C.REPO + os.pathsep + env.get('PYTHONPATH', '')
    env['PYTHONHASHSEED'] = '0'
    env.setdefault('C18_BASE_SEED', str(BASE_SEED[0]))
    # OpenMP threads sleep instead of spinning while they wait: with 16 numba threads per process and
    # several processes the spinning alone would take minutes
    env.setdefault('OMP_WAIT_POLICY', 'passive')
    env.setdefault('GOMP_SPINCOUNT', '0')
    p = subprocess.run([sys.executable, '-m', 'harness.c18_util', what, str(seed), tier],
                       cwd=C.VERIF, env=env, capture_output=True, text=True, timeout=3000)
    last = [ln for ln in p.stdout.splitlines() if ln.strip()]
    try:
        return json.loads(last[-1])
    except Exception:  # noqa: BLE001
        return {'crashed': f'rc={p.returncode} stdout={p.stdout[-800:]!r} stderr={p.stderr[-1500:]!r}'}


# ----------------------------------------------------------------------
def check_footprints(rep, res):
    if 'crashed' in res:
        # the recorder hooks private names (kernel functions, numpy inside the kernel modules): optional
        rep.count('internal-unavailable:footprint-recorder')
        rep.extra['footprint_recorder_error'] = res['crashed'][-600:]
        return
    for nm in res.get('unavailable', []):
        rep.count('internal-unavailable:kernel:' + nm)
    cases, ress, metas = [], [], []
    rep.extra['python_mode_index_errors'] = res.get('python_mode_index_errors')
    for r in res['records']:
        rep.evaluations += 1
        rep.count('kernel:' + r['kernel'])
        ids = {}

        def vid(x):
            return ids.setdefault(x, len(ids))
        bad_keys = [w for it in r['its'] for w in it[1] if not isinstance(w[0], int)]
        if any(o[0] == 'store-into-shared-array' for o in r['outside']):
            rep.violation(f"prange-shared-array:{r['kernel']}",
                          f"{r['kernel']}: an iteration writes into an array that was allocated outside the loop "
                          f"body and is not its own cell of the result (shared between the numba threads)", r)
            continue
        if bad_keys or r['outside']:
            # a store through a slice / a fill inside an iteration: the recorder cannot tell which
            # cells were meant; the public comparisons decide
            rep.count('internal-differs-public-agrees:prange-unclassified-store')
            continue
        other_reads = [x for x in r['reads'] if x[0] != x[1]]
        if other_reads:
            rep.violation(f"prange-reads-other-cell:{r['kernel']}",
                          'an iteration reads a result cell that is not its own', r)
            continue
        init = [vid(x) for x in r['init']]
        its = [(C.Nat(it[0]), [(C.Nat(w[0]), vid(w[1])) for w in it[1]]) for it in r['its']]
        final = [vid(x) for x in r['final']]
        cases.append((its, init))
        ress.append((True, final, final))
        metas.append(r)
        if len([it for it in r['its'] if it[1]]) >= 2:
            rep.nontrivial(('prange', r['kernel'], json.dumps(r['its'])[:300]))
    if metas:
        rep.sample({'prange_record': metas[0]})
    bad = C.coq_mismatches(IMPORTS, 'prange_check', 'list obs_iteration * list Z',
                           'bool * list Z * list Z', cases, ress)
    seen = set()
    for i in bad:
        k = metas[i]['kernel']
        its = metas[i]['its']
        own = all(w[0] == it[0] for it in its for w in it[1]) and len({it[0] for it in its}) == len(its)
        if own:
            # every store hit its own cell, yet the replay differs from the returned array (stores the
            # recorder did not see): not a cross-iteration store; the public comparisons decide
            rep.count('internal-differs-public-agrees:prange-replay')
            continue
        if k in seen:
            continue
        seen.add(k)
        model = C.coq_eval(IMPORTS, f'prange_check {C.coq(cases[i])}')
        rep.violation(f'prange-footprint:{k}',
                      f'{k}: an iteration stores outside its own cell, two iterations share a cell, or the '
                      f'replay of the observed stores does not give the returned array',
                      {'record': metas[i], 'model': model, 'kind': 'prange'})


# ----------------------------------------------------------------------
def _parse(rel, root, ext):
    parts = rel.split('/')
    if parts[0] == root:
        base = [C.Rec('NStr', 'ds')]
    elif ext and parts[0] == ext:
        base = [C.Rec('NStr', 'tmp')]
    else:
        return None
    for c in parts[1:]:
        m = re.fullmatch(r'part\.(\d+)\.parquet', c)
        if m:
            base.append(C.Rec('NPart', C.Nat(int(m.group(1)))))
            continue
        m = re.fullmatch(r'part(\d+)\.parquet', c)
        if m:
            base.append(C.Rec('NSub', C.Nat(int(m.group(1)))))
            continue
        m = re.fullmatch(r't(\d+)', c)
        if m:
            base.append(C.Rec('NTmp', C.Nat(int(m.group(1)))))
            continue
        base.append(C.Rec('NMeta') if c == '_metadata' else C.Rec('NCommon') if c == '_common_metadata'
                    else C.Rec('NStr', c))
    return base


def _kind(c):
    return c.ctor


def check_trace(rep, t, meta):
    """replay the recorded filesystem trace of a threaded pack_partitions_to_parquet in the model"""
    root, ext = t['root'], t['ext']
    k = 4
    cells = {int(re.fullmatch(r'part\.(\d+)\.parquet', f).group(1)): v for f, v in t['cells'].items()}
    if sorted(cells) != list(range(k)) or any(e[1] == 'mv' for e in t['trace']):
        rep.count('fs-trace:skipped(empty output partition)')
        return
    nin = 1 + max(i for v in cells.values() for i in v)
    asg = [[C.Nat(N) for N in range(k) if i in cells[N]] for i in range(nin)]
    ds = [C.Rec('NStr', 'ds')]
    # the temporary directories
    tmp_parent = None
    if ext:
        for _th, op, pth, _m in t['trace']:
            pp = _parse(pth, root, ext)
            if pp and op == 'makedirs' and _kind(pp[-1]) == 'NTmp':
                tmp_parent = pp[:-1]
                break
    layout = C.Rec('Build_layout', ds, C.Rec('TExternal', tmp_parent) if tmp_parent else C.Raw('TInside'))

    def tmp_of(N):
        return (tmp_parent + [C.Rec('NTmp', C.Nat(N))]) if tmp_parent else ds + [C.Rec('NPart', C.Nat(N))]

    def out_of(N):
        return ds + [C.Rec('NPart', C.Nat(N))]

    def subs_of(N):
        return [tmp_of(N) + [C.Rec('NSub', C.Nat(i))] for i in range(nin) if i in cells[N]]
    ops, phase = [], []
    read_done = set()
    for _th, op, pth, mode in t['trace']:
        pp = _parse(pth, root, ext)
        if pp is None:
            continue
        last = pp[-1]
        if op == 'open' and mode == 'wb':
            if _kind(last) == 'NSub':
                N = int(pp[-2].args[0])
                ops.append(C.Rec('FWrite', pp, [(C.Nat(int(last.args[0])), C.Nat(N))]))
                phase.append(1)
            elif _kind(last) == 'NPart' and len(pp) == 2:
                ops.append(C.Rec('FWriteFrom', C.Nat(int(last.args[0])), pp))
                phase.append(2)
        elif op == 'rm':
            ops.append(C.Rec('FRm', pp))
            phase.append(2)
        elif op == 'ls' and _kind(last) in ('NPart', 'NTmp') and C.coq(pp) == C.coq(tmp_of(int(last.args[0]))):
            N = int(last.args[0])
            if N not in read_done and any(ph == 1 for ph in phase):
                read_done.add(N)
                ops.append(C.Rec('FRead', C.Nat(N), subs_of(N)))
                phase.append(2)
    rep.evaluations += 1
    # the barrier: every process_partition write precedes every concat_parts operation
    if 1 in phase and 2 in phase and max(i for i, ph in enumerate(phase) if ph == 1) > \
            min(i for i, ph in enumerate(phase) if ph == 2):
        rep.violation('fs-trace:barrier', 'a concat_parts operation ran before the last process_partition write',
                      {**meta, 'phases': phase})
        return
    locs, real = [], []
    left = set(t.get('ext_left') or [])
    for N in range(k):
        locs.append(out_of(N))
        real.append(C.Some(C.Some([(C.Nat(i), C.Nat(N)) for i in sorted(cells[N])])))
        if tmp_parent:
            locs.append(tmp_of(N))
            gone = not any(x.endswith(f'/t{N}') or x == f't{N}' for x in left)
            real.append(None if gone else C.Some(None))
        for sp in subs_of(N):
            locs.append(sp)
            real.append(None)
    case = (layout, asg, C.Nat(k), ops, locs)
    rty = 'list (option (option (list (nat * nat)))) * list (option (option (list (nat * nat))))'
    bad = C.coq_mismatches(IMPORTS, 'trace_check', 'layout * list (list nat) * nat * list fsop * list path',
                           rty, [case], [(real, real)])
    rep.nontrivial(('fs-trace', meta['numba_threads'], meta['num_workers'], json.dumps(t['trace'])[:400]))
    if len(rep.samples) < 3:
        rep.sample({'fs_trace_ops': len(ops), 'asg': [[int(x) for x in a] for a in asg], 'layout': 'external' if tmp_parent else 'inside'})
    if bad:
        model = C.coq_eval(IMPORTS, f'trace_check {C.coq(case)}')
        rep.violation('fs-trace:tree', 'the recorded filesystem trace replayed in the model / the model\'s sequential '
                                       'execution does not give the tree the real run left',
                      {**meta, 'real': real, 'model': model, 'ops': ops, 'kind': 'fs-trace'})


def check_sched(rep, results):
    base = None
    large_base = [None]
    for nt, res in results:
        if 'crashed' in res:
            rep.violation('worker-crashed:sched', f'the scheduled runs (NUMBA_NUM_THREADS={nt}) crashed',
                          {'numba_threads': nt, **res})
            continue
        if res['numba_threads'] != nt:
            rep.violation('worker-env', 'NUMBA_NUM_THREADS was not honoured', {'want': nt, 'got': res['numba_threads']})
        # large arrays: bit for bit the 1-thread answer, stable over repeats, equal to the scalar form
        if large_base[0] is None:
            large_base[0] = res.get('large', {})
        rep.evaluations += len(res.get('large', {}))
        rep.count('large-array-kernels', len(res.get('large', {})))
        if nt > 1:
            rep.nontrivial(('large', nt, res.get('large_n')))
        for nm in res.get('large_unstable', []):
            fam = ':'.join(nm.split(' [')[0].split(':')[1:3])
            where = ('large single elements (rings / lines of 8191 .. 70001 vertices, 9000 parts) at non-dyadic '
                     'coordinates' if nm.startswith('big:') else f'{res.get("large_n")} elements')
            rep.violation(f'thread-dependent:{fam}', f'{nm} on {where} differs between repeated runs / numba thread '
                          f'counts inside one process (NUMBA_NUM_THREADS={nt})',
                          {'numba_threads': nt, 'op': nm, 'kind': 'sched'})
        for nm in sorted(k for k in large_base[0] if res.get('large', {}).get(k) != large_base[0][k]):
            fam = ':'.join(nm.split(':')[1:3])
            if nm.startswith('big:') and any(u.startswith(nm + ' ') for u in res.get('large_unstable', [])):
                continue        # already reported from inside the process
            if nm.startswith('hist:'):
                if any(nm == f"hist:{hb['op']}:{hb['geometry']}" for _nt, r_ in results
                       for hb in r_.get('history_bad', [])):
                    continue    # already reported as history-dependent
                rep.violation(f'thread-dependent:{fam}', f'{nm}: the first evaluations of the queries of the history '
                              f'suite (arrays of 1 .. 777 elements, ordinary and degenerate boxes) differ from those of '
                              f'the 1-thread process (NUMBA_NUM_THREADS={nt})',
                              {'numba_threads': nt, 'op': nm, 'kind': 'sched'})
                continue
            where = ('large single elements at non-dyadic coordinates' if nm.startswith('big:')
                     else f'{res.get("large_n")} elements')
            rep.violation(f'thread-dependent:{fam}', f'{nm} on {where} differs from the '
                          f'1-thread result (NUMBA_NUM_THREADS={nt})', {'numba_threads': nt, 'op': nm, 'kind': 'sched'})
        rep.evaluations += res.get('history_evals', 0)
        rep.count('same-query-under-different-histories', res.get('history_evals', 0))
        for hb in res.get('history_bad', []):
            rep.nontrivial(('history', hb['op'], hb['geometry']))
            rep.violation(f"history-dependent:{hb['op'].split(':')[0]}:{hb['geometry']}",
                          f"{hb['op']} of a {hb['geometry']} array of {hb['n']} elements, box {hb['box_name']} "
                          f"{hb['box']}: the answer depends on what ran before in the process "
                          f"({', '.join(hb['histories_that_differ_from_first'])} differ from the first evaluation: "
                          f"{hb['first']} vs {hb['other']})",
                          {'numba_threads': nt, 'kind': 'sched', 'history_share': res.get('history_share'), **hb})
        for nm in res.get('large_scalar_bad', []):
            rep.violation('array-vs-scalar:' + nm.split('[')[0], f'{nm}: the array kernel disagrees with the scalar '
                          f'form / the case is degenerate', {'numba_threads': nt, 'op': nm, 'kind': 'sched'})
        for r in res['runs']:
            if base is None:
                base = r['digests']      # synchronous, 1 worker, 1 numba thread
                rep.extra['baseline_ops'] = sorted(base)
            rep.evaluations += 1
            cfg = (nt, r['scheduler'], r['num_workers'], r['delay'], r['tempdir_format'])
            rep.count(f"sched:{r['scheduler']}")
            if r['scheduler'] == 'threads' and r['num_workers'] > 1:
                rep.nontrivial(('sched',) + cfg)
            if 'internal-unavailable:_retry_args' in r['digests']:
                rep.count('internal-unavailable:_retry_args')
            diff = sorted(k for k in base if not k.startswith('internal-') and r['digests'].get(k) != base[k])
            if r['digests'].get('pack_to_parquet:allrows') != C_TRUE:
                diff.append('pack_to_parquet:rows-lost')
            for k in diff[:3]:
                op = k.split(':')[0]
                rep.violation(f'schedule-dependent:{op}',
                              f'{k} differs from the synchronous single-thread run',
                              {'numba_threads': nt, 'scheduler': r['scheduler'], 'num_workers': r['num_workers'],
                               'delay': r['delay'], 'tempdir_format': r['tempdir_format'], 'op': k,
                               'kind': 'sched'})
        for t in res['traces']:
            # the replay of the recorded filesystem calls in the model depends on the private file
            # layout and on which calls are made: an optional extra
            r2 = C.Report(rep.pid, rep.tier, rep.seed)
            try:
                check_trace(r2, t, {'numba_threads': nt, 'scheduler': t['scheduler'], 'num_workers': t['num_workers']})
            except Exception:  # noqa: BLE001
                rep.count('internal-unavailable:fs-trace')
                continue
            rep.evaluations += r2.evaluations
            rep.nontrivial_keys |= r2.nontrivial_keys
            for key_, n_ in r2.hist.items():
                rep.count(key_, n_)
            for smp in r2.samples:
                rep.sample(smp)
            for v in r2.violations:
                rep.count('internal-differs-public-agrees:' + v['signature'])


import hashlib  # noqa: E402
C_TRUE = hashlib.sha256(json.dumps(True, sort_keys=True, default=str).encode()).hexdigest()[:16]


# ----------------------------------------------------------------------
def check_clients(rep, res):
    if 'crashed' in res:
        rep.violation('worker-crashed:clients', 'the client-thread runs crashed', res)
        return
    for name, n in res.get('spy_unavailable', {}).items():
        rep.count('internal-unavailable:cache-cell:' + name.split(' ')[0], n)
    for name, n in res['counts'].items():
        rep.evaluations += n
        rep.count('clients:' + name, n)
        rep.nontrivial(('clients', name))
    rep.extra['dask_internal_keyerrors'] = res.get('dask_internal', [])
    for f in res['failures']:
        rep.violation('concurrent-use:' + f['object'].split(' ')[0],
                      f"{f['object']}: a client thread did not get the single-threaded answer", f)
    cases, ress, metas = [], [], []
    for s in res['schedules']:
        n = s['threads']
        cases.append(([(C.Nat(s['cfg'][0]), C.Nat(s['cfg'][1]))] * n, [C.Nat(i) for i in s['sched']]))
        ress.append((C.Some(1), [C.Some(C.Some(1))] * n, [C.Nat(k) for k in s['kinds']]))
        metas.append(s)
        rep.evaluations += 1
        if sum(s['kinds']) >= 2:
            rep.nontrivial(('cache-race', s['object'], tuple(s['sched'])))
    bad = C.coq_mismatches(IMPORTS, 'cache_check', 'list (nat * nat) * list nat',
                           'option Z * list (option (option Z)) * list nat', cases, ress)
    seen = set()
    for i in bad:
        nm = metas[i]['object']
        if nm in seen:
            continue
        seen.add(nm)
        model = C.coq_eval(IMPORTS, f'cache_check {C.coq(cases[i])}')
        # the order of reads and writes on a private cell is not behaviour: counted, the verdict is
        # whether every client got the single-threaded answer
        rep.count('internal-differs-public-agrees:cache-shape:' + nm.split(' ')[0])
        rep.extra.setdefault('cache_shape_differences', []).append({**metas[i], 'model': model})
    if metas:
        rep.sample({'cache_schedule': metas[0]})


# ----------------------------------------------------------------------
def run(rep):
    tier = getattr(rep, 'tier_run', rep.tier)
    rep.rule = ('(1) every prange / parallel kernel (_geometry_map_nested1/2/3, multipoints_intersect_bounds, '
                '_perform_intersects_multipoint/_line/_polygon) on seeded random arrays of 0-8 elements with '
                'missing and empty elements, with and without inds; (2) cx (point / multipoint / polygon column), '
                'sjoin inner / left, bounds / total_bounds / area / length / intersects_bounds of five geometry '
                'columns (and, on 60 000-element arrays of all 7 kinds built from numpy buffers with a mixed hit/miss box: '
                'intersects_bounds with and without inds, bounds, total_bounds, length, area, PointArray.intersects '
                'against 5 shapes, R-tree build / intersects / covers_overlaps, cx; 3 repeats each, compared with the '
                '1-thread digests and on a sample with the scalar form), pack_partitions, pack_partitions_to_parquet (inside and external temporary '
                'directories), read_parquet_dask on a 1200-row frame in 4 partitions under scheduler in '
                '{synchronous, threads} x num_workers in {1,2,4,16} x NUMBA_NUM_THREADS in {1,2,4,16} x seeded '
                'delays in a wrapping filesystem x switch interval 1e-5; (3) 8 client threads x 5 rounds on 13 '
                'kinds of shared object; non-trivial = threaded run with > 1 worker, kernel record with >= 2 '
                'storing iterations, cache race with >= 2 builders, recorded threaded filesystem trace; '
                '(4) round 4: (a) in every NUMBA_NUM_THREADS process, single elements that are large - lines / rings of 5, '
                '4097, 8190 .. 8193, 20 011 vertices, a 16 385-vertex line and a 16 400-vertex ring inside multi-geometries, '
                'multi-geometries of 2 500 parts, a polygon with 600 holes (thorough tier: also 70 001 vertices, 9 000 parts, '
                '4 200 holes) - at non-dyadic coordinates (full mantissas, offsets 1e3 / 1e6): length / area / bounds / '
                'total_bounds / intersects_bounds through the array, the scalar element, GeoSeries and Dask (synchronous, '
                'threads) bit for bit equal under numba.set_num_threads(k), k in {1,2,4,16} available (thorough: '
                '{1,2,3,4,7,16}, twice), and across the processes; the 60 000-element arrays also carry non-dyadic '
                'coordinates; (b) the same (array, operation, box) - 7 kinds x 1 / 3 / 48 / 200 / 777 elements with missing '
                'and empty ones (the 35 arrays are dealt out to the four processes, rotating with the seed, about 7 500 '
                'evaluations each), 11 boxes (ordinary, zero width, zero height, '
                'point, vertex-aligned zero width / height, reversed, NaN, infinite, everything, nothing), intersects_bounds '
                'with / without / with empty inds, scalar elements, GeoSeries, cx in slice and scalar form with and without '
                'a built index, sindex, bounds, total_bounds, isna, length, area, PointArray.intersects against 9 ordinary '
                'and degenerate shapes, Dask intersects_bounds + cx on both schedulers - evaluated first, right after a '
                'query that matched everything / nothing, and after blocks of every size a result can have were filled '
                'with 0x01 / 0xff / 1.2345 / 0x00 and freed: all evaluations equal; zero-width / zero-height boxes on 6 '
                'columns (with a multiline column) in one graph with an all / none box and the scalar cx forms on the line '
                'columns through the Dask suite of (2); 8 '
                'client threads putting the queries to one shared array each in its own order')
    seed = rep.seed
    BASE_SEED[0] = seed
    jobs = {}
    with cf.ThreadPoolExecutor(max_workers=8) as ex:
        jobs['footprint'] = ex.submit(_spawn, 'footprint', seed, tier, {'NUMBA_DISABLE_JIT': '1'})
        jobs['clients'] = ex.submit(_spawn, 'clients', seed, tier, {})
        for k, nt in enumerate(NUMBA_THREADS):
            # the arrays of the history suite are dealt out to the four processes, rotating with the seed
            jobs[('sched', nt)] = ex.submit(_spawn, 'sched', seed + nt, tier,
                                            {'NUMBA_NUM_THREADS': str(nt), 'C18_HISTORY_SHARE': str((k + seed) % 4)})
        done = {k: f.result() for k, f in jobs.items()}
    import time
    t_check = time.time()
    # [wall seconds, CPU seconds] per phase and worker process (the workers run side by side)
    rep.extra['seconds'] = {
        'worker wall (spawn to result)': dict(SPAWN_SECONDS),
        'phases [wall, cpu]': {str(k): v.get('phase_seconds') for k, v in done.items() if isinstance(v, dict)}}
    check_footprints(rep, done['footprint'])
    check_sched(rep, [(nt, done[('sched', nt)]) for nt in NUMBA_THREADS])
    check_clients(rep, done['clients'])
    rep.extra['seconds']['model evaluation in Coq + comparisons'] = round(time.time() - t_check, 1)


def replay(rep, rp):
    """prange / cache / fs-trace records are re-evaluated in the model; schedule-dependent results are
    re-run"""
    kind = rp.get('kind')
    BASE_SEED[0] = rep.seed
    if kind == 'sched':
        res = _spawn('sched', rep.seed, rep.tier, {'NUMBA_NUM_THREADS': str(rp['numba_threads']),
                                                   'C18_HISTORY_SHARE': str(rp.get('history_share', -1))})
        r2 = C.Report(rep.pid, rep.tier, rep.seed)
        base = _spawn('sched', rep.seed, rep.tier, {'NUMBA_NUM_THREADS': '1', 'C18_HISTORY_SHARE': '-2'})
        check_sched(r2, [(1, base), (rp['numba_threads'], res)])
        for v in r2.violations:
            print('still:', v['signature'], v['what'])
        return not r2.violations
    r2 = C.Report(rep.pid, rep.tier, rep.seed)
    r2.tier_run = rep.tier
    if kind == 'prange' or str(rp.get('signature', '')).startswith('prange'):
        check_footprints(r2, _spawn('footprint', rep.seed, rep.tier, {'NUMBA_DISABLE_JIT': '1'}))
    else:
        check_clients(r2, _spawn('clients', rep.seed, rep.tier, {}))
    for v in r2.violations:
        print('still:', v['signature'], v['what'])
    return not r2.violations
