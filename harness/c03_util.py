"""Helpers of the C03 check: generators of box multisets and queries on the
integer / half-integer grid, the brute-force oracle of the specification, and
the numba drivers that read node ranges out of a real _NumbaRtree."""
import itertools
import math

import numpy as np

NAN = float('nan')
SCALE = 2                       # rows have integer corners, queries half-integer ones
GRID = [0, 1, 2, 3]             # row corners
HALF = [x / 2.0 for x in range(-1, 8)]   # query corners: -0.5 .. 3.5


def isnan_row(r):
    return any(x != x for x in r)


# --------------------------------------------------------------------------
# oracle of the specification (independent of model and implementation)
# --------------------------------------------------------------------------
def brute(rows, q, d):
    """(intersecting, covered, overlapping-not-covered) row indices, by definition"""
    inter, cov, ovl = [], [], []
    for i, r in enumerate(rows):
        if isnan_row(r):
            continue
        if all(r[k] <= q[d + k] and q[k] <= r[d + k] for k in range(d)):
            inter.append(i)
            if all(q[k] <= r[k] and r[d + k] <= q[d + k] for k in range(d)):
                cov.append(i)
            else:
                ovl.append(i)
    return inter, cov, ovl


def brute_batch(rows, queries, d):
    """the same definition as [brute], for all queries at once: boolean matrices
    (query x row) intersecting / covered, and per query whether some finite row has a side
    equal to a query side (a tie of < against <=)"""
    m = len(queries)
    n = len(rows)
    if n == 0:
        z = np.zeros((m, 0), dtype=bool)
        return z, z, np.zeros(m, dtype=bool)
    R = np.array(rows, dtype='float64').reshape(n, 2 * d)
    Q = np.array(queries, dtype='float64').reshape(m, 2 * d)
    fin = ~np.isnan(R).any(axis=1)
    inter = np.broadcast_to(fin, (m, n)).copy()
    cov = inter.copy()
    tie = np.zeros((m, n), dtype=bool)
    with np.errstate(invalid='ignore'):
        for k in range(d):
            lo, hi = R[None, :, k], R[None, :, d + k]
            qlo, qhi = Q[:, None, k], Q[:, None, d + k]
            inter &= (lo <= qhi) & (qlo <= hi)
            cov &= (qlo <= lo) & (hi <= qhi)
            tie |= (lo == qhi) | (hi == qlo) | (lo == qlo) | (hi == qhi)
    cov &= inter
    return inter, cov, (tie & fin[None, :]).any(axis=1)


def brute_total(rows, d):
    fin = [r for r in rows if not isnan_row(r)]
    if not fin:
        return [NAN] * (2 * d)
    return [min(r[k] for r in fin) for k in range(d)] + [max(r[d + k] for r in fin) for k in range(d)]


def well_formed(rows, d):
    return all(isnan_row(r) or all(r[k] <= r[d + k] for k in range(d)) for r in rows)


# --------------------------------------------------------------------------
# generators
# --------------------------------------------------------------------------
def intervals():
    return [(a, b) for a in GRID for b in GRID if a <= b]


def rand_box(rng, d, anchors=None):
    """a box with integer corners in GRID; biased to zero extent and to sharing
    an edge / a corner with an earlier box"""
    lo, hi = [], []
    for k in range(d):
        u = rng.random()
        if anchors and u < 0.45:
            a = rng.choice(anchors)
            # start where another box ends / end where it starts / same edge
            e = rng.choice([a[k], a[d + k]])
            if rng.random() < 0.5:
                x0, x1 = e, rng.choice([g for g in GRID if g >= e])
            else:
                x0, x1 = rng.choice([g for g in GRID if g <= e]), e
        elif u < 0.65:
            x0 = x1 = rng.choice(GRID)
        else:
            x0, x1 = sorted((rng.choice(GRID), rng.choice(GRID)))
        lo.append(float(x0))
        hi.append(float(x1))
    return lo + hi


def rand_rows(rng, d, n):
    """n rows: boxes sharing edges/corners, duplicates, all-identical, NaN rows at any
    position (fully or partially NaN)"""
    mode = rng.random()
    rows = []
    if n and mode < 0.12:
        b = rand_box(rng, d)
        rows = [list(b) for _ in range(n)]
    else:
        for _ in range(n):
            if rows and rng.random() < 0.15:
                rows.append(list(rng.choice(rows)))
            else:
                rows.append(rand_box(rng, d, [r for r in rows if not isnan_row(r)] or None))
    # NaN rows: 0..n of them at random positions
    u = rng.random()
    if n and u < 0.55:
        k = rng.choice([0, 0, 1, 1, 2, rng.randint(0, n), n]) if u < 0.5 else n
        for i in rng.sample(range(n), min(k, n)):
            if rng.random() < 0.35:
                # partially NaN (one or a few coordinates)
                r = list(rows[i])
                for c in rng.sample(range(2 * d), rng.randint(1, 2 * d)):
                    r[c] = NAN
                rows[i] = r
            else:
                rows[i] = [NAN] * (2 * d)
    return rows


def rand_queries(rng, d, rows, nq):
    fin = [r for r in rows if not isnan_row(r)]
    qs = []
    qs.append([-0.5] * d + [3.5] * d)            # covers everything
    qs.append([-0.5] * d + [-0.5] * d)           # disjoint, degenerate
    qs.append([3.5] * d + [3.5] * d)
    if fin:
        tb = brute_total(fin, d)
        qs.append(list(tb))                       # exactly the extent
        qs.append([tb[k] + 0.5 for k in range(d)] + [tb[d + k] - 0.5 for k in range(d)])
    while len(qs) < nq:
        u = rng.random()
        if fin and u < 0.5:
            # around a row: each side on / just inside / just outside the row's side
            r = rng.choice(fin)
            lo = [r[k] + rng.choice([-0.5, 0, 0, 0.5]) for k in range(d)]
            hi = [r[d + k] + rng.choice([-0.5, 0, 0, 0.5]) for k in range(d)]
            if rng.random() < 0.3:
                k = rng.randrange(d)
                hi[k] = rng.choice([x for x in HALF])
            q = lo + hi
        elif u < 0.62:
            pt = [rng.choice(HALF) for _ in range(d)]   # degenerate (point) query
            q = pt + pt
        elif u < 0.95:
            lo, hi = [], []
            for k in range(d):
                a, b = sorted((rng.choice(HALF), rng.choice(HALF)))
                lo.append(a)
                hi.append(b)
            q = lo + hi
        else:
            # reversed on one axis (min > max): matches nothing
            q = [rng.choice(HALF) for _ in range(2 * d)]
        q = [min(3.5, max(-0.5, float(x))) for x in q]
        qs.append(q)
    return qs


def all_queries_1d(include_reversed=True):
    return [[a, b] for a in HALF for b in HALF if include_reversed or a <= b]


def page_sizes(rng, n):
    base = list(range(1, n + 2))
    extra = [x for x in (n - 1, n, n + 1, 512) if x >= 1]
    return base, extra


# --------------------------------------------------------------------------
# serialisation
# --------------------------------------------------------------------------
def zrow(r):
    """row of floats -> model row (scaled by SCALE; NaN -> None)"""
    from . import common as C
    return [None if x != x else C.Some(int(round(x * SCALE))) for x in r]


def zquery(q):
    out = []
    for x in q:
        y = x * SCALE
        if y != int(y):
            raise ValueError('query not on the half grid')
        out.append(int(y))
    return out


# --------------------------------------------------------------------------
# numba drivers over the real jitclass
# --------------------------------------------------------------------------
_drivers = {}


def node_ranges(rt):
    """(start_index(node), stop_index(node)) of every node of a real _NumbaRtree,
    computed by the real methods inside one jitted loop"""
    if 'ranges' not in _drivers:
        from numba import njit

        @njit
        def drv(t):
            m = t._bounds_tree.shape[0]
            out = np.zeros((m, 2), dtype=np.int64)
            for node in range(m):
                out[node, 0] = t._start_index(node)
                out[node, 1] = t._stop_index(node)
            return t._leaf_start(), out
        _drivers['ranges'] = drv
    return _drivers['ranges'](rt)


def numba_log2_up_table(kmax):
    """int(np.ceil(np.log2(k))) for k = 1..kmax evaluated under numba, as the build does"""
    if 'log2' not in _drivers:
        from numba import njit

        @njit
        def drv(kmax):
            out = np.zeros(kmax + 1, dtype=np.int64)
            for k in range(1, kmax + 1):
                out[k] = int(np.ceil(np.log2(k)))
            return out
        _drivers['log2'] = drv
    return _drivers['log2'](kmax)
