"""Helpers of the C06 / C09 correspondence checks: frames with two geometry columns,
partitioned Dask frames, row signatures, NaN-aware comparison."""
import math

import numpy as np

from . import common as C
from . import geomgen as G

SCALE = 2          # coordinates are integers, box ends half-integers


def shape(kind, a, b, c, d):
    """an element of `kind` whose bounds are exactly (a, b, c, d) (a point: (a, b, a, b))"""
    if kind == 'point':
        return [a, b]
    if kind in ('multipoint', 'line'):
        return [a, b, c, d]
    if kind == 'ring':
        return [a, b, c, b, c, d, a, b]
    if kind == 'multiline':
        return [[a, b, c, d], [a, d, c, b]]
    if kind == 'polygon':
        return [[a, b, c, b, c, d, a, d, a, b]]
    if kind == 'multipolygon':
        return [[[a, b, c, b, c, d, a, d, a, b]]]
    raise ValueError(kind)


def empty_el(kind):
    return None if kind == 'point' else []


def make_frame(kind_g, els_g, kind_h, els_h, active='g', index0=10):
    """GeoDataFrame with geometry columns g, h, payload v (= row id) and w; ascending
    unique index; `active` is the active geometry column"""
    from spatialpandas import GeoDataFrame
    n = len(els_g)
    assert len(els_h) == n
    df = GeoDataFrame({'g': G.make_array(kind_g, els_g), 'h': G.make_array(kind_h, els_h),
                       'v': np.arange(n, dtype='int64'),
                       'w': np.array([1.5 * i - 2 for i in range(n)])},
                      index=list(range(index0, index0 + n)), geometry=active)
    return df


def shift(el, off):
    """the element moved by (off, off)"""
    if el is None:
        return None
    if isinstance(el, (list, tuple)):
        return [shift(x, off) for x in el]
    return el + off


def compositions(n):
    """all ways of cutting range(n) into consecutive non-empty chunks: list of cut lists"""
    out = []
    for mask in range(1 << max(n - 1, 0)):
        cuts = [0] + [i + 1 for i in range(n - 1) if mask >> i & 1] + [n]
        out.append(cuts)
    return out if n > 0 else [[0, 0]]


def with_empty_chunks(cuts, positions):
    """repeat cut points so that empty chunks appear at the given positions"""
    out = list(cuts)
    for p in sorted(positions, reverse=True):
        out.insert(p, out[min(p, len(out) - 1)] if p < len(out) else out[-1])
    return sorted(out)


def dask_from_chunks(df, cuts):
    """Dask frame whose partitions are df.iloc[cuts[i]:cuts[i+1]] (from_delayed)"""
    import dask.dataframe as dd
    from dask import delayed
    parts = [df.iloc[a:b] for a, b in zip(cuts[:-1], cuts[1:])]
    return dd.from_delayed([delayed(p) for p in parts], meta=df.iloc[:0])


def compute_parts(X):
    import dask
    return list(dask.compute(*X.to_delayed()))


def _cell(v):
    if isinstance(v, float):
        return 'nan' if math.isnan(v) else repr(v)
    if isinstance(v, (np.floating,)):
        return _cell(float(v))
    if isinstance(v, (np.integer,)):
        return repr(int(v))
    return repr(v)


def geom_cells(arr):
    """hashable value of every element of a geometry array (None = missing)"""
    data = arr.data
    try:
        vals = data.to_pylist()
    except Exception:
        vals = [None if x is None else repr(x) for x in arr]
    return [_cell(v) if v is None or not isinstance(v, (list, bytes)) else repr(v) for v in vals]


def frame_sig(df):
    """list of complete rows (index label, every cell) of a pandas (Geo)DataFrame / Series"""
    import pandas as pd
    from spatialpandas.geometry.base import GeometryDtype
    if isinstance(df, pd.Series):
        df = df.to_frame(name=df.name if df.name is not None else '_s')
    cols = []
    for c in df.columns:
        s = df[c]
        if isinstance(s.dtype, GeometryDtype):
            cols.append(geom_cells(s.array))
        else:
            cols.append([_cell(v) for v in s.tolist()])
    idx = [_cell(v) for v in df.index.tolist()]
    return [(idx[i],) + tuple(col[i] for col in cols) for i in range(len(df))]


def same_floats(a, b):
    a = np.asarray(a, dtype='float64')
    b = np.asarray(b, dtype='float64')
    return a.shape == b.shape and bool(np.all((a == b) | (np.isnan(a) & np.isnan(b))))


def active_name(df):
    """name of the active geometry column of a pandas / Dask geo frame (None if invalid),
    read through the public `.geometry` accessor"""
    try:
        return df.geometry.name
    except Exception:
        return None


def key_slices(key):
    xs0, xs1, ys0, ys1 = key
    return slice(xs0, xs1), slice(ys0, ys1)


def resolve_key(key, tb):
    """_get_bounds as the property reads it: omitted ends from total bounds, ordered"""
    xs0, xs1, ys0, ys1 = key
    x0 = tb[0] if xs0 is None else xs0
    y0 = tb[1] if ys0 is None else ys0
    x1 = tb[2] if xs1 is None else xs1
    y1 = tb[3] if ys1 is None else ys1
    if x1 < x0:
        x0, x1 = x1, x0
    if y1 < y0:
        y0, y1 = y1, y0
    return (x0, y0, x1, y1)


def cbox(row):
    """bounds row -> model bbox (scaled)"""
    return tuple(C.fnum(v, SCALE) for v in row)


def ckey(key):
    return tuple(None if v is None else C.Some(int(round(v * SCALE))) for v in key)


def nat_lists(frames, col='v'):
    return [[C.Nat(int(x)) for x in f[col].tolist()] for f in frames]


# --------------------------------------------------------------------------
# arbitrary float64 coordinates: every finite double is a dyadic rational, so a frame's
# numbers become exact integers under a per-case power-of-two scale (no rounding anywhere)
# --------------------------------------------------------------------------
def _flat(vs):
    for v in vs:
        if isinstance(v, (list, tuple, np.ndarray)):
            yield from _flat(v)
        else:
            yield v


def log2scale(values, lo=1):
    """smallest k >= lo such that v * 2**k is an integer for every finite v (nested lists
    allowed, None / NaN / inf ignored)"""
    k = lo
    for v in _flat(values):
        if v is None:
            continue
        v = float(v)
        if not math.isfinite(v) or v == 0:
            continue
        k = max(k, v.as_integer_ratio()[1].bit_length() - 1)
    return k


def znum(x, k):
    """float -> model num under the scale 2**k, exactly"""
    if x is None:
        return None
    x = float(x)
    if not math.isfinite(x):
        return None
    n, d = x.as_integer_ratio()
    q, r = divmod(n << k, d)
    if r:
        raise ValueError(f'{x!r} is not a multiple of 2**-{k}')
    return C.Some(q)


def cbox_k(row, k):
    return tuple(znum(v, k) for v in row)


def ckey_k(key, k):
    return tuple(None if v is None else znum(v, k) for v in key)


def el_box(el):
    """(x0, y0, x1, y1) of an element given as (nested) coordinate lists; None if it has none"""
    if el is None:
        return None
    flat = [float(v) for v in _flat(el)]
    if not flat:
        return None
    xs, ys = flat[0::2], flat[1::2]
    return (min(xs), min(ys), max(xs), max(ys))


def make_frame_arrays(ga, ha, active='g', index0=10):
    """make_frame from ready geometry arrays (which may be positional slices of longer ones)"""
    from spatialpandas import GeoDataFrame
    n = len(ga)
    assert len(ha) == n
    return GeoDataFrame({'g': ga, 'h': ha, 'v': np.arange(n, dtype='int64'),
                         'w': np.array([1.5 * i - 2 for i in range(n)])},
                        index=list(range(index0, index0 + n)), geometry=active)
