"""C07 — the Hilbert curve mapping is a locality-preserving bijection.

Correspondence: the four entry points of spatialindex/hilbert_curve.py
(coordinate_from_distance, coordinates_from_distances, distance_from_coordinate,
distances_from_coordinates) against Model/Hilbert.v evaluated by the Coq kernel:
every cell / every distance for p <= 5 (n in 1..3; n = 1 up to p = 12), seeded
samples up to the int64 guard n*p <= 62 (p <= 31 for n = 2, 20 for n = 3, 62 for
n = 1, a few n in 4..62) including both ends of the distance range.  Only the public
functions are observed.  What the scalar distance_from_coordinate leaves in its argument
is compared with the model's in-place state as a counted extra only (a rewrite that works
on a copy is harmless).  Direct checks of the statement on the
real results (round trip, adjacency, refinement, end points, classical curve for
n = 2) run on the same inputs, also at orders the kernel-evaluated `_upto`
theorems do not reach.

Argument types and provenances (the values never depend on them): the vectorised AND the scalar
entry points on every integer dtype int8..uint64 (uint64 on both sides of n*p = 53, the bits a
float64 holds exactly), p and n as numpy integers, and the two round trips composed on the
library's OWN return values handed on exactly as returned (vector>vector, two laps, element of a
result > scalar, scalar > scalar, scalars gathered in an array > vector, row of a result > scalar)
for cells / distances held in int64, uint64, int32, uint32 at n*p in {20..62}.
"""
import itertools
import os
import random
import time

import numpy as np

from . import common as C
from . import c07_util as U

ANCHOR_FILES = ['spatialpandas/spatialindex/hilbert_curve.py']
TRUSTED = ['numba int64 arithmetic == N arithmetic under the guard n*p <= 62 (no wrap-around)',
           'numpy strided slicing h_bits[i::n] as transcribed in Model/Hilbert.v (strided)']

IMPORTS = 'Model.Hilbert'
CFD_TY = 'nat * nat * list N'
CFD_RES = 'list (list N)'
CFD_FN = "fun c => let '(p, n, hs) := c in coordinates_from_distances p n hs"
DFC_TY = 'nat * list (list N)'
DFC_RES = 'list N * list (list N)'
DFC_FN = ("fun c => let '(p, cs) := c in (distances_from_coordinates p cs, "
          "map (distance_from_coordinate_state p) cs)")

BATCH = 256

# deadline for one plan item on the implementation side (seconds): base + per-input share;
# the first call of a process also pays the JIT compilation (10-25 s, more under load)
IMPL_TIMEOUT = float(os.environ.get('VERIF_IMPL_TIMEOUT', '150'))


def deadline(ninputs):
    return IMPL_TIMEOUT + ninputs / 1000.0


def guard(p, n):
    return p >= 1 and n >= 1 and n * p <= 62


# --------------------------------------------------------------------------
# input generation
# --------------------------------------------------------------------------
def interesting_distances(rng, p, n, k):
    top = 1 << (n * p)
    s = {0, top - 1}
    for d in (1, 2, 3, 4, 5):
        s.add(min(d, top - 1))
        s.add(max(top - 1 - d, 0))
    for e in range(0, n * p + 1):
        for d in (-1, 0, 1):
            v = (1 << e) + d
            if 0 <= v < top and (e < 8 or rng.random() < 0.25):
                s.add(v)
    # quadrant boundaries of the top levels
    for q in (range(1, 1 << n) if n <= 4 else [1, 2, 3, (1 << n) - 1, (1 << n) - 2]):
        v = q << (n * (p - 1))
        for d in (-1, 0):
            if 0 <= v + d < top:
                s.add(v + d)
    out = sorted(s)
    while len(out) < k:
        r = rng.random()
        if r < 0.6:
            out.append(rng.randrange(top))
        elif r < 0.8:   # few bits set / few bits clear
            v = 0
            for _ in range(rng.randint(1, 4)):
                v |= 1 << rng.randrange(n * p)
            out.append(v if rng.random() < 0.5 else (top - 1) ^ v)
        else:           # low-magnitude
            out.append(rng.randrange(min(top, 1 << rng.randint(1, n * p))))
    return out[:max(k, len(out))]


def interesting_cells(rng, p, n, k):
    side = 1 << p
    cells = []
    corners = [0, side - 1]
    if n <= 6:
        cells.extend(list(c) for c in itertools.product(corners, repeat=n))
    else:
        cells.append([0] * n)
        cells.append([side - 1] * n)
        cells.append([side - 1] + [0] * (n - 1))
    mids = sorted({0, side - 1, side // 2, max(side // 2 - 1, 0), 1 % side, (side - 2) % side})
    if n <= 3:
        cells.extend(list(c) for c in itertools.product(mids, repeat=n))
    while len(cells) < k:
        r = rng.random()
        if r < 0.6:
            cells.append([rng.randrange(side) for _ in range(n)])
        elif r < 0.8:
            cells.append([rng.choice(mids + [rng.randrange(side)]) for _ in range(n)])
        else:
            cells.append([rng.randrange(min(side, 1 << rng.randint(1, p))) for _ in range(n)])
    return cells


def all_cells(p, n):
    side = 1 << p
    return [list(c) for c in itertools.product(range(side), repeat=n)]


def plan(rep, tier):
    """list of (label, p, n, distances, cells)"""
    rng = rep.rng
    out = []
    pmax_exh = 5
    for n in (1, 2, 3):
        lim = 12 if n == 1 else pmax_exh
        for p in range(1, lim + 1):
            out.append(('exhaustive', p, n, list(range(1 << (n * p))), all_cells(p, n)))
    if tier != 'quick':
        out.append(('exhaustive', 6, 2, list(range(1 << 12)), all_cells(6, 2)))
        out.append(('exhaustive', 7, 2, list(range(1 << 14)), all_cells(7, 2)))
        out.append(('exhaustive', 8, 2, list(range(1 << 16)), all_cells(8, 2)))
        out.append(('exhaustive', 6, 3, list(range(1 << 18)), all_cells(6, 3)))
        out.append(('exhaustive', 4, 4, list(range(1 << 16)), all_cells(4, 4)))
    k = 160 if tier == 'quick' else 2500
    for n, pmax in ((2, 31), (3, 20), (1, 62)):
        for p in range(1 if n != 1 else 13, pmax + 1):
            if p <= pmax_exh and n != 1:
                continue
            kk = k * (3 if (n, p) in ((2, 10), (2, 15), (2, 31), (3, 20), (1, 62)) else 1)
            out.append(('sample', p, n, interesting_distances(rng, p, n, kk),
                        interesting_cells(rng, p, n, kk)))
    # other dimensions up to the guard
    for n in (4, 5, 6, 7, 10, 15, 31, 62):
        for p in sorted({1, 62 // n, max(1, 62 // n - 1)}):
            if guard(p, n):
                kk = k // 4
                out.append(('sample', p, n, interesting_distances(rng, p, n, kk),
                            interesting_cells(rng, p, n, kk)))
    return out


# --------------------------------------------------------------------------
# direct checks of the statement on the implementation's own results
# --------------------------------------------------------------------------
def direct_checks(rep, label, p, n, hs, coords_of_hs, cells, ds_of_cells):
    H = U.hilbert_mod()
    side = 1 << p
    top = 1 << (n * p)
    meta = {'p': p, 'n': n}
    # ranges
    for h, c in zip(hs, coords_of_hs):
        if len(c) != n or not all(0 <= x < side for x in c):
            rep.violation('range:coordinate', 'coordinate outside the 2^p grid',
                          {**meta, 'dir': 'cfd', 'hs': [h], 'impl': c})
            return
    for c, d in zip(cells, ds_of_cells):
        if not 0 <= d < top:
            rep.violation('range:distance', 'distance outside [0, 2^(np))',
                          {**meta, 'dir': 'dfc', 'cells': [c], 'impl': d})
            return
    # round trips (through the vectorised entry points)
    back, _ = U.dfc_vector(p, coords_of_hs)
    for h, c, b in zip(hs, coords_of_hs, back):
        if b != h:
            rep.violation('roundtrip:distance', 'distance -> coordinate -> distance is not the identity',
                          {**meta, 'dir': 'cfd', 'hs': [h], 'coord': c, 'back': b})
            break
    back = U.cfd_vector(p, n, ds_of_cells)
    for c, d, b in zip(cells, ds_of_cells, back):
        if b != c:
            rep.violation('roundtrip:coordinate', 'coordinate -> distance -> coordinate is not the identity',
                          {**meta, 'dir': 'dfc', 'cells': [c], 'distance': d, 'back': b})
            break
    # adjacency of h and h+1
    hs1 = [h for h in hs if h + 1 < top]
    if hs1:
        a = np.array(U.cfd_vector(p, n, hs1), dtype=object)
        b = np.array(U.cfd_vector(p, n, [h + 1 for h in hs1]), dtype=object)
        for h, ra, rb in zip(hs1, a.tolist(), b.tolist()):
            diff = [abs(x - y) for x, y in zip(ra, rb)]
            if sorted(diff) != [0] * (n - 1) + [1]:
                rep.violation('adjacent', 'consecutive distances are not grid neighbours',
                              {**meta, 'dir': 'cfd', 'hs': [h, h + 1], 'impl': [ra, rb]})
                break
        rep.count('adjacent_pairs', len(hs1))
    # refinement: dfc(p+1, 2c+b) >> n == dfc(p, c)
    if guard(p + 1, n) and cells:
        sub = cells if len(cells) <= 4096 else cells[::max(1, len(cells) // 4096)]
        dsub = dict((tuple(c), d) for c, d in zip(cells, ds_of_cells))
        kids, par = [], []
        for c in sub:
            for bits in ((0,) * n, (1,) * n, tuple(rep.rng.randint(0, 1) for _ in range(n))):
                kids.append([2 * x + b for x, b in zip(c, bits)])
                par.append(c)
        dk, _ = U.dfc_vector(p + 1, kids)
        for kc, pc, d in zip(kids, par, dk):
            if d >> n != dsub[tuple(pc)]:
                rep.violation('refinement', 'dropping the last n bits of the order-(p+1) distance does '
                                            'not give the order-p distance of the parent cell',
                              {**meta, 'dir': 'dfc', 'cells': [pc], 'child': kc, 'child_distance': d,
                               'parent_distance': dsub[tuple(pc)]})
                break
        rep.count('refinement_pairs', len(kids))
    # end points
    e0 = U.cfd_vector(p, n, [0, top - 1])
    if e0[0] != [0] * n or e0[1] != [side - 1] + [0] * (n - 1):
        rep.violation('endpoints', 'the curve does not run from (0,..,0) to (2^p-1,0,..,0)',
                      {**meta, 'dir': 'cfd', 'hs': [0, top - 1], 'impl': e0})
    # classical curve, n = 2
    if n == 2:
        for h, c in zip(hs, coords_of_hs):
            if U.hilbert_ref(p, h) != c:
                rep.violation('classical', 'n = 2: differs from the classical Hilbert curve',
                              {**meta, 'dir': 'cfd', 'hs': [h], 'impl': c, 'classical': U.hilbert_ref(p, h)})
                break
    # bijection on the exhaustive scopes
    if label == 'exhaustive':
        if sorted(map(tuple, coords_of_hs)) != sorted(map(tuple, cells)):
            rep.violation('bijection', 'the distances 0..2^(np)-1 do not visit every cell exactly once',
                          {**meta, 'dir': 'cfd', 'hs': [0], 'exhaustive': True})


# --------------------------------------------------------------------------
# the implementation side of one plan item (runs in the child process)
# --------------------------------------------------------------------------
class MiniRep:
    def __init__(self, seed):
        self.rng = random.Random(seed)
        self.violations = []
        self.hist = {}

    def violation(self, signature, what, replay):
        self.violations.append((signature, what, C.jsonable(replay)))

    def count(self, cls, n=1):
        self.hist[cls] = self.hist.get(cls, 0) + n


def impl_item(label, p, n, hs, cells, seed):
    """every real-code call for one (p, n): results of the four entry points + the direct checks"""
    mr = MiniRep(seed)
    out = {'vec': None, 'dvec': None, 'states': None, 'evaluations': 0}
    try:
        vec = U.cfd_vector(p, n, hs)
        sca = U.cfd_scalar(p, n, hs)
    except Exception as e:
        mr.violation('raises:cfd', f'coordinate(s)_from_distance(s) raised {type(e).__name__}: {e}',
                     {'dir': 'cfd', 'p': p, 'n': n, 'hs': hs[:50]})
        return {**out, 'violations': mr.violations, 'hist': mr.hist}
    out['evaluations'] += 2 * len(hs)
    if sca != vec:
        i = next(i for i in range(len(hs)) if sca[i] != vec[i])
        mr.violation('scalar-vs-vectorised:cfd',
                     'coordinate_from_distance and coordinates_from_distances disagree',
                     {'dir': 'cfd', 'p': p, 'n': n, 'hs': [hs[i]], 'scalar': sca[i], 'vector': vec[i]})
    if any(x < 0 for row in vec for x in row):
        i = next(i for i in range(len(hs)) if any(x < 0 for x in vec[i]))
        mr.violation('range:coordinate', 'negative coordinate',
                     {'dir': 'cfd', 'p': p, 'n': n, 'hs': [hs[i]], 'impl': vec[i]})
        return {**out, 'violations': mr.violations, 'hist': mr.hist}
    try:
        dvec, untouched = U.dfc_vector(p, cells)
        dsca, states = U.dfc_scalar(p, cells)
    except Exception as e:
        mr.violation('raises:dfc', f'distance(s)_from_coordinate(s) raised {type(e).__name__}: {e}',
                     {'dir': 'dfc', 'p': p, 'n': n, 'cells': cells[:50]})
        return {**out, 'violations': mr.violations, 'hist': mr.hist}
    out['evaluations'] += 2 * len(cells)
    if not untouched:
        mr.violation('vectorised-mutates', 'distances_from_coordinates modified its argument',
                     {'dir': 'dfc', 'p': p, 'n': n, 'cells': cells[:20]})
    if dsca != dvec:
        i = next(i for i in range(len(cells)) if dsca[i] != dvec[i])
        mr.violation('scalar-vs-vectorised:dfc',
                     'distance_from_coordinate and distances_from_coordinates disagree',
                     {'dir': 'dfc', 'p': p, 'n': n, 'cells': [cells[i]], 'scalar': dsca[i],
                      'vector': dvec[i]})
    if any(x < 0 for s in states for x in s):
        states = None            # not representable in the model's N: the extra is skipped
        mr.count('internal-unavailable:scalar-argument-afterwards(negative)')
    if any(d < 0 for d in dvec):
        i = next(i for i in range(len(cells)) if dvec[i] < 0)
        mr.violation('range:distance', 'negative distance',
                     {'dir': 'dfc', 'p': p, 'n': n, 'cells': [cells[i]], 'impl': dvec[i]})
        return {**out, 'violations': mr.violations, 'hist': mr.hist}
    direct_checks(mr, label, p, n, hs, vec, cells, dvec)
    out['evaluations'] += batch_order_checks(mr, label, p, n, hs, vec, cells, dvec, states)
    return {'vec': vec, 'dvec': dvec, 'states': states, 'evaluations': out['evaluations'],
            'violations': mr.violations, 'hist': mr.hist}


def batch_order_checks(mr, label, p, n, hs, vec, cells, dvec, states):
    """the vectorised entry points are row-wise maps: the value of a row may not depend on the
    rows before it.  (a) every cell followed by the cell whose coordinates are the in-place
    (transposed) state the scalar kernel leaves for it - the batch that exposes any reuse of a
    previous row after it has been overwritten; (b) the exhaustive grids in several fixed orders
    (they are already passed as ONE batch in lexicographic order by impl_item); (c) repeated and
    reversed distances."""
    nev = 0
    if cells:
        # the transposed form is computed from the distance (public result); what the scalar kernel
        # happens to leave in its argument is used in addition when it is a different valid cell
        side = 1 << p
        tforms = [U.transpose_form(p, n, d) for d in dvec]
        dst, _ = U.dfc_scalar(p, tforms)
        batch, expect = [], []
        for c, st, d, d2 in zip(cells, tforms, dvec, dst):
            batch += [c, st]
            expect += [d, d2]
        if states is not None:
            extra = [(c, s, d) for c, s, d in zip(cells, states, dvec)
                     if s != c and len(s) == n and all(0 <= x < side for x in s)][:2048]
            if extra:
                d3, _ = U.dfc_scalar(p, [s for _, s, _ in extra])
                for (c, s, d), dd in zip(extra, d3):
                    batch += [c, s]
                    expect += [d, dd]
        got, untouched = U.dfc_vector(p, batch)
        nev += len(batch)
        mr.count('adversarial_rows', len(batch))
        if got != expect or not untouched:
            i = next((i for i in range(len(batch)) if got[i] != expect[i]), 0)
            lo = max(0, i - 2)
            mr.violation('batch-dependence:dfc',
                         'distances_from_coordinates: the value of a row depends on the rows before it '
                         '(cell followed by its in-place transposed state)',
                         {'dir': 'dfc', 'p': p, 'n': n, 'cells': batch[lo:i + 1], 'batch_row': i - lo,
                          'vector': got[lo:i + 1], 'scalar': expect[lo:i + 1]})
    if label == 'exhaustive' and cells:
        idx = list(range(len(cells)))
        orders = {'reverse-lexicographic': idx[::-1],
                  'last-coordinate-slowest': sorted(idx, key=lambda i: cells[i][::-1]),
                  'along-the-curve': sorted(idx, key=lambda i: dvec[i]),
                  'against-the-curve': sorted(idx, key=lambda i: -dvec[i]),
                  'boustrophedon': sorted(idx, key=lambda i: (cells[i][0], cells[i][1:] if cells[i][0] % 2 == 0
                                                              else [-x for x in cells[i][1:]]))}
        for name, order in orders.items():
            got, _ = U.dfc_vector(p, [cells[i] for i in order])
            nev += len(order)
            if got != [dvec[i] for i in order]:
                k = next(k for k in range(len(order)) if got[k] != dvec[order[k]])
                lo = max(0, k - 2)
                mr.violation('batch-dependence:dfc',
                             f'distances_from_coordinates: a row changes its value when the grid is passed '
                             f'in {name} order',
                             {'dir': 'dfc', 'p': p, 'n': n, 'cells': [cells[i] for i in order[lo:k + 1]],
                              'batch_row': k - lo, 'vector': got[lo:k + 1],
                              'scalar': [dvec[i] for i in order[lo:k + 1]]})
                break
    if hs:
        sub = hs if len(hs) <= 4096 else hs[:4096]
        v0 = vec[:len(sub)]
        batch = [h for h in sub for _ in (0, 1)] + sub[::-1]
        expect = [c for c in v0 for _ in (0, 1)] + v0[::-1]
        got = U.cfd_vector(p, n, batch)
        nev += len(batch)
        if got != expect:
            i = next(i for i in range(len(batch)) if got[i] != expect[i])
            lo = max(0, i - 2)
            mr.violation('batch-dependence:cfd',
                         'coordinates_from_distances: the value of a row depends on the rows before it',
                         {'dir': 'cfd', 'p': p, 'n': n, 'hs': batch[lo:i + 1], 'batch_row': i - lo,
                          'vector': got[lo:i + 1], 'scalar': expect[lo:i + 1]})
    return nev


# --------------------------------------------------------------------------
# dtypes and memory layouts of the vectorised entry points
# --------------------------------------------------------------------------
DTYPES = ['int8', 'uint8', 'int16', 'uint16', 'int32', 'uint32', 'int64', 'uint64']
LAYOUTS = ['C', 'F', 'colview', 'rowview', 'negstride', 'list']
# (p, n) per coordinate dtype: the coordinates fit, n*p exceeds the dtype's bits where possible
DFC_ORDERS = {'int8': [(7, 2), (7, 3), (5, 2), (7, 8), (3, 2)],
              'uint8': [(8, 2), (8, 3), (5, 2), (8, 7)],
              'int16': [(15, 2), (15, 4), (9, 2), (8, 3)],
              'uint16': [(16, 2), (16, 3), (9, 2), (11, 2)],
              'int32': [(31, 2), (16, 2), (17, 2), (20, 3), (11, 3), (15, 2)],
              'uint32': [(31, 2), (16, 2), (17, 2), (20, 3), (12, 3)],
              'int64': [(31, 2), (20, 3), (10, 2), (62, 1)],
              # both sides of the 53 bits a float64 holds exactly: n*p = 52 | 54, 51 | 54, 53 | 54
              'uint64': [(31, 2), (27, 2), (26, 2), (20, 3), (18, 3), (17, 3), (62, 1), (54, 1), (53, 1),
                         (10, 2), (15, 4)]}
# (p, n) per distance dtype: 2^(np) - 1 fits
CFD_ORDERS = {'int8': [(7, 1), (3, 2), (2, 3)], 'uint8': [(8, 1), (4, 2), (2, 4)],
              'int16': [(15, 1), (7, 2), (5, 3)], 'uint16': [(16, 1), (8, 2), (4, 4)],
              'int32': [(31, 1), (15, 2), (10, 3)], 'uint32': [(32, 1), (16, 2), (8, 4)],
              'int64': [(62, 1), (31, 2), (20, 3)],
              'uint64': [(62, 1), (54, 1), (53, 1), (31, 2), (27, 2), (26, 2), (20, 3), (18, 3), (17, 3),
                         (10, 2), (15, 4)]}


def lay_out(a, layout):
    """the same logical array in another memory layout / container"""
    if layout == 'C':
        return np.ascontiguousarray(a)
    if layout == 'F':
        return np.asfortranarray(a)
    if layout == 'colview':
        if a.ndim == 1:
            big = np.zeros(2 * a.shape[0], a.dtype)
            big[::2] = a
            return big[::2]
        big = np.zeros((a.shape[0], 2 * a.shape[1]), a.dtype)
        big[:, ::2] = a
        return big[:, ::2]
    if layout == 'rowview':
        big = np.zeros((2 * a.shape[0],) + a.shape[1:], a.dtype)
        big[1::2] = a
        return big[1::2]
    if layout == 'negstride':
        return a[::-1].copy()[::-1]
    if layout == 'list':
        return a.tolist()
    raise ValueError(layout)


def call_vectorised(direction, p, n, dtype, layout, inputs):
    """one call of a vectorised entry point on inputs of a given dtype / layout:
    (values or None, error or None, result dtype, argument unchanged)"""
    H = U.hilbert_mod()
    a = np.array(inputs, dtype=dtype)
    obj = lay_out(a, layout)
    snap = np.array(obj).copy()
    try:
        r = H.distances_from_coordinates(p, obj) if direction == 'dfc' \
            else H.coordinates_from_distances(p, n, obj)
    except Exception as e:
        return None, type(e).__name__, None, True
    r = np.asarray(r)
    same = bool((np.array(obj) == snap).all())
    return [[int(x) for x in row] for row in r.tolist()] if r.ndim == 2 else [int(x) for x in r.tolist()], \
        None, str(r.dtype), same


def as_int(x):
    """a returned scalar as an exact Python int; None when it is not an integer value (a float such
    as 4.611686018427388e+18 is converted exactly, so a rounded distance shows as a wrong value)"""
    if isinstance(x, (bool, np.bool_)):
        return None
    if isinstance(x, (int, np.integer)):
        return int(x)
    if isinstance(x, (float, np.floating)) and np.isfinite(x) and float(x) == int(x):
        return int(x)
    return None


def call_scalar(direction, p, n, dtype, inputs):
    """the scalar entry points on inputs of a given integer type: distance_from_coordinate on a
    1-d array of that dtype (a private copy per cell), coordinate_from_distance on a numpy scalar
    of that type: (values [None = not an integer value], error or None, type names of the results)"""
    H = U.hilbert_mod()
    vals, names = [], set()
    try:
        for x in inputs:
            if direction == 'dfc':
                r = H.distance_from_coordinate(p, np.array(x, dtype=dtype))
                names.add(type(r).__name__)
                vals.append(as_int(r))
            else:
                r = H.coordinate_from_distance(p, n, np.dtype(dtype).type(x))
                names.add(type(r).__name__)
                vals.append([as_int(v) for v in r])
    except Exception as e:
        return None, type(e).__name__, sorted(names)
    return vals, None, sorted(names)


def impl_dtypes(seed, dtypes=None, per=48):
    rng = random.Random(seed)
    mr = MiniRep(seed)
    cfd_out, dfc_out, nev = [], [], 0
    H = U.hilbert_mod()
    for dt in (dtypes or DTYPES):
        for p, n in DFC_ORDERS[dt]:
            if not guard(p, n):
                continue
            side, top = 1 << p, 1 << (n * p)
            cells = interesting_cells(rng, p, n, per)[:per * 3]
            dsca, _ = U.dfc_scalar(p, cells)
            # the transposed forms right after their cells (see batch_order_checks)
            cells = cells + [x for c, d in zip(cells[:16], dsca[:16]) for x in (c, U.transpose_form(p, n, d))]
            dsca, _ = U.dfc_scalar(p, cells)
            dfc_out.append((p, n, cells, dsca))
            for layout in LAYOUTS:
                if layout == 'list' and dt != 'int64':
                    continue          # a list of Python ints has no dtype: once is enough
                got, err, rdt, same = call_vectorised('dfc', p, n, dt, layout, cells)
                nev += len(cells)
                mr.count(f'dtype:dfc:{dt}:{layout}')
                meta = {'dir': 'dtype', 'entry': 'dfc', 'p': p, 'n': n, 'dtype': dt, 'layout': layout}
                if layout == 'list' and err is not None:
                    # a Python list of lists is outside the documented input (ndarray): whether and how
                    # it is rejected is not part of the property
                    mr.count(f'optional:dfc_list_of_lists_not_accepted({err})')
                    continue
                if err is not None:
                    mr.violation(f'dtype-raises:dfc:{err}',
                                 f'distances_from_coordinates raised {err} for {dt} / {layout} input',
                                 {**meta, 'cells': cells[:20]})
                    continue
                ok_dtype = rdt is not None and np.issubdtype(np.dtype(rdt), np.integer) \
                    and np.iinfo(np.dtype(rdt)).max >= top - 1
                if got != dsca or not ok_dtype or not same:
                    i = next((i for i in range(len(cells)) if got[i] != dsca[i]), 0)
                    mr.violation('vectorised-dtype:dfc',
                                 f'distances_from_coordinates on {dt} coordinates ({layout}): '
                                 + ('differs from the scalar entry point / wraps' if got != dsca else
                                    f'result dtype {rdt} cannot hold 2^(np)-1' if not ok_dtype else
                                    'modified its argument'),
                                 {**meta, 'cells': [cells[i]], 'vector': got[i], 'scalar': dsca[i],
                                  'result_dtype': rdt})
                    break
            # one row given as a 1-d array
            got, err, rdt, same = call_vectorised('dfc', p, n, dt, 'C', cells[0])
            if err is not None:
                mr.count(f'optional:dfc_1d_row_not_accepted({err})')    # documented input is 2-d
            elif got != [dsca[0]]:
                mr.violation('vectorised-dtype:dfc', f'distances_from_coordinates on a 1-d {dt} row differs '
                                                      'from the scalar entry point',
                             {'dir': 'dtype', 'entry': 'dfc', 'p': p, 'n': n, 'dtype': dt, 'layout': 'C',
                              'cells': [cells[0]], 'vector': got if err is None else err, 'scalar': dsca[0]})
            # the scalar entry point on a 1-d array of this dtype
            sub = cells[:per]
            got, err, names = call_scalar('dfc', p, n, dt, sub)
            nev += len(sub)
            mr.count(f'dtype:dfc:{dt}:scalar')
            meta = {'dir': 'dtype', 'form': 'scalar', 'entry': 'dfc', 'p': p, 'n': n, 'dtype': dt,
                    'layout': 'C'}
            if err is not None:
                mr.violation(f'dtype-raises:dfc:{err}',
                             f'distance_from_coordinate raised {err} for a {dt} coordinate array',
                             {**meta, 'cells': sub[:20]})
            elif got != dsca[:len(sub)]:
                i = next(i for i in range(len(sub)) if got[i] != dsca[i])
                mr.violation('scalar-dtype:dfc',
                             f'distance_from_coordinate on a {dt} coordinate array differs from the same '
                             f'cell held in int64 (returned {"/".join(names)})',
                             {**meta, 'cells': [sub[i]], 'typed': got[i], 'int64': dsca[i]})
        for p, n in CFD_ORDERS[dt]:
            if not guard(p, n):
                continue
            top = 1 << (n * p)
            hs = [h for h in interesting_distances(rng, p, n, per)[:per * 3] if h <= np.iinfo(dt).max]
            hs = hs + [h for h in hs[:16] for _ in (0, 1)]
            sca = U.cfd_scalar(p, n, hs)
            cfd_out.append((p, n, hs, sca))
            for layout in ('C', 'colview', 'rowview', 'negstride', 'list'):
                if layout == 'list' and dt != 'int64':
                    continue
                got, err, rdt, same = call_vectorised('cfd', p, n, dt, layout, hs)
                nev += len(hs)
                mr.count(f'dtype:cfd:{dt}:{layout}')
                meta = {'dir': 'dtype', 'entry': 'cfd', 'p': p, 'n': n, 'dtype': dt, 'layout': layout}
                if layout == 'list' and err is not None:
                    mr.count(f'optional:cfd_list_not_accepted({err})')
                    continue
                if err is not None:
                    mr.violation(f'dtype-raises:cfd:{err}',
                                 f'coordinates_from_distances raised {err} for {dt} / {layout} input',
                                 {**meta, 'hs': hs[:20]})
                    continue
                ok_dtype = np.issubdtype(np.dtype(rdt), np.integer) and np.iinfo(np.dtype(rdt)).max >= (1 << p) - 1
                if got != sca or not ok_dtype or not same:
                    i = next((i for i in range(len(hs)) if got[i] != sca[i]), 0)
                    mr.violation('vectorised-dtype:cfd',
                                 f'coordinates_from_distances on {dt} distances ({layout}) differs from the '
                                 f'scalar entry point, or its result dtype {rdt} cannot hold 2^p-1',
                                 {**meta, 'hs': [hs[i]], 'vector': got[i], 'scalar': sca[i],
                                  'result_dtype': rdt})
                    break
            # the scalar entry point on a numpy scalar of this type
            sub = hs[:per]
            got, err, names = call_scalar('cfd', p, n, dt, sub)
            nev += len(sub)
            mr.count(f'dtype:cfd:{dt}:scalar')
            meta = {'dir': 'dtype', 'form': 'scalar', 'entry': 'cfd', 'p': p, 'n': n, 'dtype': dt,
                    'layout': 'C'}
            if err is not None:
                mr.violation(f'dtype-raises:cfd:{err}',
                             f'coordinate_from_distance raised {err} for a numpy {dt} distance',
                             {**meta, 'hs': sub[:20]})
            elif got != sca[:len(sub)]:
                i = next(i for i in range(len(sub)) if got[i] != sca[i])
                mr.violation('scalar-dtype:cfd',
                             f'coordinate_from_distance on a numpy {dt} distance differs from the same '
                             f'distance given as a Python int',
                             {**meta, 'hs': [sub[i]], 'typed': got[i], 'int64': sca[i]})
    nev += order_argument_types(mr, rng)
    return {'cfd': cfd_out, 'dfc': dfc_out, 'violations': mr.violations, 'hist': mr.hist,
            'evaluations': nev}


def order_argument_types(mr, rng):
    """the order p and the dimension n given as numpy integers of several widths (all four entry
    points): the results must be those for Python ints"""
    H = U.hilbert_mod()
    nev = 0
    for p, n in ((31, 2), (18, 3)):
        top = 1 << (n * p)
        hs = interesting_distances(rng, p, n, 8)[:24] + [rng.randrange(top) for _ in range(8)]
        cells = interesting_cells(rng, p, n, 8)[:24] + [[rng.randrange(1 << p) for _ in range(n)]
                                                       for _ in range(8)]
        ref_c = U.cfd_vector(p, n, hs)
        ref_d, _ = U.dfc_vector(p, cells)
        for tn in ('int64', 'int32', 'uint8', 'uint64'):
            T = np.dtype(tn).type
            mr.count(f'order-type:{tn}')
            meta = {'dir': 'argtype', 'p': p, 'n': n, 'type': tn}
            try:
                got_c = [[as_int(x) for x in row] for row in
                         np.asarray(H.coordinates_from_distances(T(p), T(n), np.array(hs, dtype=np.int64))).tolist()]
                got_cs = [[as_int(x) for x in H.coordinate_from_distance(T(p), T(n), h)] for h in hs[:8]]
                got_d = [as_int(x) for x in
                         np.asarray(H.distances_from_coordinates(T(p), np.array(cells, dtype=np.int64))).tolist()]
                got_ds = [as_int(H.distance_from_coordinate(T(p), np.array(c, dtype=np.int64))) for c in cells[:8]]
            except Exception as e:
                mr.violation(f'argtype-raises:{type(e).__name__}',
                             f'an entry point raised {type(e).__name__} when p, n are numpy {tn} scalars',
                             {**meta, 'hs': hs[:8], 'cells': cells[:8]})
                continue
            nev += len(hs) + len(cells) + 16
            if got_c != ref_c or got_cs != ref_c[:8]:
                i = next((i for i in range(len(hs)) if got_c[i] != ref_c[i]), 0)
                mr.violation('argtype:cfd', f'coordinate(s)_from_distance(s) with p, n given as numpy {tn} '
                                            'differs from p, n given as Python ints',
                             {**meta, 'hs': [hs[i]], 'typed': got_c[i], 'python_int': ref_c[i]})
            if got_d != ref_d or got_ds != ref_d[:8]:
                i = next((i for i in range(len(cells)) if got_d[i] != ref_d[i]), 0)
                mr.violation('argtype:dfc', f'distance(s)_from_coordinate(s) with p given as numpy {tn} '
                                            'differs from p given as a Python int',
                             {**meta, 'cells': [cells[i]], 'typed': got_d[i], 'python_int': ref_d[i]})
    return nev


# --------------------------------------------------------------------------
# compositions of the entry points on the library's OWN return values, passed on exactly as they
# were returned (no conversion to Python ints / int64 in between): the two round trips of the
# statement as a caller writes them, decode(encode(cells)) and encode(decode(distances)), on both
# sides of n*p = 53 (what a float64 holds exactly) and up to the guard n*p = 62
# --------------------------------------------------------------------------
COMPOSE_ORDERS = [(26, 2), (27, 2), (28, 2), (31, 2), (10, 2), (16, 2), (17, 3), (18, 3), (20, 3),
                  (53, 1), (54, 1), (62, 1), (15, 4), (12, 5), (10, 6), (2, 31), (1, 62)]
COMPOSE_DTYPES = ['int64', 'uint64', 'int32', 'uint32']
CELL_ROUTES = ['vector>vector', 'vector>vector>vector>vector', 'vector>element>scalar', 'scalar>scalar',
               'scalars>array>vector']
DIST_ROUTES = ['vector>vector', 'vector>row>scalar', 'scalar>array>scalar', 'scalar>list>scalar']
SCALAR_SUB = 24


def ints(a):
    a = np.asarray(a)
    if a.ndim == 2:
        return [[as_int(x) for x in row] for row in a.tolist()]
    return [as_int(x) for x in a.tolist()]


def compose_cells(route, p, n, dtype, cells):
    """cells (held in `dtype`) -> distances -> cells through `route`; every intermediate value is
    handed on as returned.  (distances as ints, cells that came back, description of the
    intermediate objects)"""
    H = U.hilbert_mod()
    a = np.array(cells, dtype=dtype).reshape(len(cells), n)
    if route == 'vector>vector':
        d = H.distances_from_coordinates(p, a)
        back = H.coordinates_from_distances(p, n, d)
        return ints(d), ints(back), f'distances {np.asarray(d).dtype}'
    if route == 'vector>vector>vector>vector':
        d = H.distances_from_coordinates(p, a)
        back = H.coordinates_from_distances(p, n, d)
        d2 = H.distances_from_coordinates(p, back)
        back2 = H.coordinates_from_distances(p, n, d2)
        return ints(d2), ints(back2), f'distances {np.asarray(d).dtype}, cells {np.asarray(back).dtype}'
    if route == 'vector>element>scalar':
        d = H.distances_from_coordinates(p, a)
        back = [[as_int(x) for x in H.coordinate_from_distance(p, n, d[k])] for k in range(len(cells))]
        return ints(d), back, f'distances {np.asarray(d).dtype}'
    if route == 'scalar>scalar':
        ds = [H.distance_from_coordinate(p, a[k].copy()) for k in range(len(cells))]
        back = [[as_int(x) for x in H.coordinate_from_distance(p, n, d)] for d in ds]
        return [as_int(d) for d in ds], back, 'distance ' + '/'.join(sorted({type(d).__name__ for d in ds}))
    if route == 'scalars>array>vector':
        ds = np.array([H.distance_from_coordinate(p, a[k].copy()) for k in range(len(cells))])
        back = H.coordinates_from_distances(p, n, ds)
        return ints(ds), ints(back), f'distances {ds.dtype}'
    raise ValueError(route)


def compose_distances(route, p, n, dtype, hs):
    """distances (held in `dtype`) -> cells -> distances through `route`"""
    H = U.hilbert_mod()
    h = np.array(hs, dtype=dtype)
    if route == 'vector>vector':
        c = H.coordinates_from_distances(p, n, h)
        mid = ints(c)
        d = H.distances_from_coordinates(p, c)
        return mid, ints(d), f'cells {np.asarray(c).dtype}'
    if route == 'vector>row>scalar':
        c = H.coordinates_from_distances(p, n, h)
        mid = ints(c)
        d = [as_int(H.distance_from_coordinate(p, c[k])) for k in range(len(hs))]
        return mid, d, f'cells {np.asarray(c).dtype}'
    if route in ('scalar>array>scalar', 'scalar>list>scalar'):
        mid, d = [], []
        for k in range(len(hs)):
            cs = H.coordinate_from_distance(p, n, h[k])
            mid.append([as_int(x) for x in cs])
            d.append(as_int(H.distance_from_coordinate(p, np.array(cs) if route == 'scalar>array>scalar' else cs)))
        return mid, d, 'cell list'
    raise ValueError(route)


def impl_compose(seed, per=48):
    rng = random.Random(seed)
    mr = MiniRep(seed)
    cfd_out, dfc_out, nev = [], [], 0
    for p, n in COMPOSE_ORDERS:
        if not guard(p, n):
            continue
        side, top = 1 << p, 1 << (n * p)
        cells = interesting_cells(rng, p, n, per)[:per * 3]
        hs = interesting_distances(rng, p, n, per)[:per * 3]
        # reference values through int64 / Python ints; the caller compares them with the model
        ref_d, _ = U.dfc_scalar(p, cells)
        ref_c = U.cfd_scalar(p, n, hs)
        dfc_out.append((p, n, cells, ref_d))
        cfd_out.append((p, n, hs, ref_c))
        for dt in COMPOSE_DTYPES:
            if side - 1 > np.iinfo(dt).max:
                continue
            for route in CELL_ROUTES:
                sub = cells if route.startswith('vector>vector') else cells[:SCALAR_SUB]
                meta = {'dir': 'compose', 'kind': 'cells', 'route': route, 'dtype': dt, 'p': p, 'n': n}
                mr.count(f'compose:cells:{dt}:{route}')
                try:
                    mid, back, desc = compose_cells(route, p, n, dt, sub)
                except Exception as e:
                    mr.violation(f'compose-raises:{type(e).__name__}',
                                 f'cells ({dt}) -> distances -> cells [{route}] raised {type(e).__name__}: '
                                 f'{str(e).splitlines()[0][:160] if str(e) else ""}',
                                 {**meta, 'cells': sub[:8]})
                    continue
                nev += 2 * len(sub)
                if back != sub:
                    i = next(i for i in range(len(sub)) if back[i] != sub[i])
                    mr.violation('compose-roundtrip:coordinate',
                                 f'coordinate -> distance -> coordinate on the library\'s own return values '
                                 f'[{route}; cells {dt}, {desc}] is not the identity',
                                 {**meta, 'cells': [sub[i]], 'distance': mid[i], 'back': back[i]})
                elif mid != ref_d[:len(sub)]:
                    i = next(i for i in range(len(sub)) if mid[i] != ref_d[i])
                    mr.violation('compose-value:distance',
                                 f'the distance inside the round trip [{route}; cells {dt}, {desc}] differs '
                                 f'from the distance of the same cell held in int64',
                                 {**meta, 'cells': [sub[i]], 'distance': mid[i], 'int64': ref_d[i]})
        for dt in ('int64', 'uint64', 'uint32'):
            hh = [h for h in hs if h <= np.iinfo(dt).max]
            rc = [c for h, c in zip(hs, ref_c) if h <= np.iinfo(dt).max]
            if len(hh) < 8:
                continue
            for route in DIST_ROUTES:
                sub = hh if route == 'vector>vector' else hh[:SCALAR_SUB]
                meta = {'dir': 'compose', 'kind': 'distances', 'route': route, 'dtype': dt, 'p': p, 'n': n}
                try:
                    mid, back, desc = compose_distances(route, p, n, dt, sub)
                except Exception as e:
                    if route == 'scalar>list>scalar':
                        # a Python list is outside the documented input (1-d ndarray) of distance_from_coordinate
                        mr.count(f'optional:dfc_list_not_accepted({type(e).__name__})')
                        continue
                    mr.violation(f'compose-raises:{type(e).__name__}',
                                 f'distances ({dt}) -> cells -> distances [{route}] raised {type(e).__name__}: '
                                 f'{str(e).splitlines()[0][:160] if str(e) else ""}',
                                 {**meta, 'hs': sub[:8]})
                    continue
                mr.count(f'compose:distances:{dt}:{route}')
                nev += 2 * len(sub)
                if back != sub:
                    i = next(i for i in range(len(sub)) if back[i] != sub[i])
                    mr.violation('compose-roundtrip:distance',
                                 f'distance -> coordinate -> distance on the library\'s own return values '
                                 f'[{route}; distances {dt}, {desc}] is not the identity',
                                 {**meta, 'hs': [sub[i]], 'coord': mid[i], 'back': back[i]})
                elif mid != rc[:len(sub)]:
                    i = next(i for i in range(len(sub)) if mid[i] != rc[i])
                    mr.violation('compose-value:coordinate',
                                 f'the cell inside the round trip [{route}; distances {dt}] differs from the '
                                 f'cell of the same distance given as a Python int',
                                 {**meta, 'hs': [sub[i]], 'coord': mid[i], 'python_int': rc[i]})
    return {'cfd': cfd_out, 'dfc': dfc_out, 'violations': mr.violations, 'hist': mr.hist,
            'evaluations': nev}


def impl_argtypes(seed):
    mr = MiniRep(seed)
    order_argument_types(mr, random.Random(seed))
    return mr.violations


def compose_one(kind, route, p, n, dtype, inputs):
    """replay helper: one composition, exceptions reported as text"""
    try:
        f = compose_cells if kind == 'cells' else compose_distances
        return f(route, p, n, dtype, inputs)
    except Exception as e:
        return None, None, f'raised {type(e).__name__}: {str(e).splitlines()[0][:300] if str(e) else ""}'


def impl_samples():
    return [{'p': 3, 'n': 2, 'distance': 37, 'coordinate': U.cfd_vector(3, 2, [37])[0]},
            {'p': 31, 'n': 2, 'distance': (1 << 62) - 1,
             'coordinate': U.cfd_vector(31, 2, [(1 << 62) - 1])[0]}]


IMPL_TABLE = {'impl_item': impl_item, 'impl_samples': impl_samples, 'impl_dtypes': impl_dtypes,
              'call_vectorised': call_vectorised, 'call_scalar': call_scalar, 'impl_compose': impl_compose,
              'compose_one': compose_one, 'impl_argtypes': impl_argtypes}


def merge(rep, out):
    for sig, what, rp in out['violations']:
        rep.violation(sig, what, rp)
    for k, v in out['hist'].items():
        rep.count(k, v)
    rep.evaluations += out['evaluations']


# --------------------------------------------------------------------------
def run(rep):
    tier = getattr(rep, 'tier_run', rep.tier)
    rep.rule = ('(p, n) with 1 <= p, 1 <= n, n*p <= 62: every distance and every cell for p <= 5 '
                '(n = 2, 3) and p <= 12 (n = 1); seeded samples (range ends, powers of two +-1, quadrant '
                'boundaries, sparse/dense bit patterns, uniform) for every p up to 31 (n=2), 20 (n=3), '
                '62 (n=1) and for n in {4,5,6,7,10,15,31,62}; each input goes through the scalar and the '
                'vectorised entry point; the vectorised entry points additionally get every grid in six fixed '
                'orders, every cell followed by its in-place transposed state, repeated / reversed distances, '
                'and inputs of dtype int8..uint32, int64, uint64 in C / F / strided / negative-stride layouts and as '
                'Python lists at orders where n*p exceeds the dtype (uint64: n*p on both sides of 53); the scalar '
                'entry points on 1-d arrays / numpy scalars of each of these dtypes; p, n as numpy int64 / int32 / '
                'uint8 / uint64; both round trips composed on the library\'s own return values handed on unconverted '
                '(vector>vector, two laps, element>scalar, scalar>scalar, scalars>array>vector, row>scalar; cells and '
                'distances held in int64 / uint64 / int32 / uint32; n*p = 20..62 incl. 52|54, 51|54, 53|54); batches of %d inputs are one kernel-evaluated case; '
                'non-trivial = a distinct (direction, p, n, input) with p >= 2; '
                'evaluations = inputs x entry points' % BATCH)
    runner = U.ImplRunner(IMPL_TABLE)
    # the dtype / layout sweep (mostly JIT compilation) runs in a second child alongside the rest
    runner_dt = U.ImplRunner(IMPL_TABLE)
    t_dt = time.time()
    runner_dt.submit('impl_dtypes', (rep.seed, None, 48 if tier == 'quick' else 400))
    # the compositions on the library's own return values: a third child
    runner_cp = U.ImplRunner(IMPL_TABLE)
    runner_cp.submit('impl_compose', (rep.seed + 7, 48 if tier == 'quick' else 400))
    cfd_cases, cfd_res, cfd_meta = [], [], []
    dfc_cases, dfc_res, dfc_meta = [], [], []
    for label, p, n, hs, cells in plan(rep, tier):
        rep.count(f'{label}:n={n}')
        try:
            out = runner.call('impl_item', (label, p, n, hs, cells, rep.seed * 1000 + 64 * p + n),
                              deadline(len(hs) + len(cells)))
        except U.ImplHang as e:
            rep.violation('impl-hangs', f'the Hilbert kernels did not return ({e}) for p={p}, n={n}',
                          {'dir': 'hang', 'p': p, 'n': n, 'hs': hs[:50], 'cells': cells[:50],
                           'label': label})
            if runner.hangs >= 2:
                rep.count('aborted_after_two_hangs')
                break
            continue
        except U.ImplCrash as e:
            rep.violation('impl-crashes', f'the implementation process failed for p={p}, n={n}: {e}',
                          {'dir': 'hang', 'p': p, 'n': n, 'hs': hs[:50], 'cells': cells[:50],
                           'label': label})
            continue
        merge(rep, out)
        vec, dvec, states = out['vec'], out['dvec'], out['states']
        if vec is None or dvec is None:
            continue
        if p >= 2:
            for h in hs[:2000]:
                rep.nontrivial(('cfd', p, n, h))
            for c in cells[:2000]:
                rep.nontrivial(('dfc', p, n, tuple(c)))
        # ---- batches for the kernel
        for lo in range(0, len(hs), BATCH):
            cfd_cases.append((C.Nat(p), C.Nat(n), U.nlist(hs[lo:lo + BATCH])))
            cfd_res.append(U.nrows(vec[lo:lo + BATCH]))
            cfd_meta.append((p, n, hs[lo:lo + BATCH], vec[lo:lo + BATCH]))
        for lo in range(0, len(cells), BATCH):
            st = states[lo:lo + BATCH] if states is not None else None
            dfc_cases.append((C.Nat(p), U.nrows(cells[lo:lo + BATCH])))
            dfc_res.append((U.nlist(dvec[lo:lo + BATCH]), U.nrows(st) if st is not None else None))
            dfc_meta.append((p, n, cells[lo:lo + BATCH], dvec[lo:lo + BATCH], st))
    try:
        if runner.hangs < 2:
            for smp in runner.call('impl_samples', (), deadline(2)):
                rep.sample(smp)
    except (U.ImplHang, U.ImplCrash) as e:
        rep.violation('impl-hangs', f'the Hilbert kernels did not return for the sample inputs ({e})',
                      {'dir': 'hang', 'p': 31, 'n': 2, 'hs': [37, (1 << 62) - 1], 'cells': []})
    runner.close()

    def compare():
        # distance -> coordinate against the model
        bad = C.coq_mismatches(IMPORTS, CFD_FN, CFD_TY, CFD_RES, cfd_cases, cfd_res, shard=24)
        for i in bad[:6]:
            p, n, hs, vec = cfd_meta[i]
            j = locate_cfd(p, n, hs, vec)
            model = C.coq_eval(IMPORTS, f'coordinate_from_distance {p} {n} {hs[j]}%N')
            rep.violation('cfd-differs', 'coordinate_from_distance differs from the proven model',
                          {'dir': 'cfd', 'p': p, 'n': n, 'hs': [hs[j]], 'impl': vec[j], 'model': model})
        # coordinate -> distance against the model
        fn2 = "fun c => let '(p, cs) := c in distances_from_coordinates p cs"
        bad = C.coq_mismatches(IMPORTS, fn2, DFC_TY, 'list N', dfc_cases, [r[0] for r in dfc_res], shard=24)
        for i in bad[:6]:
            p, n, cells, dvec, st = dfc_meta[i]
            j, _ = locate_dfc(p, cells, dvec, None)
            cterm = C.coq(U.nlist(cells[j]))
            model = C.coq_eval(IMPORTS, f'distance_from_coordinate {p} {cterm}')
            rep.violation('dfc-differs', 'distance_from_coordinate differs from the proven model',
                          {'dir': 'dfc', 'p': p, 'n': n, 'cells': [cells[j]], 'impl': dvec[j], 'model': model})
        # OPTIONAL extra (never a violation): what the scalar distance_from_coordinate leaves in its
        # argument, against the model's in-place state.  Not observable behaviour of the API: a
        # rewrite that works on a copy is harmless; the outcome is only counted.
        with_state = [i for i in range(len(dfc_cases)) if dfc_res[i][1] is not None]
        mutating = [i for i in with_state if dfc_meta[i][4] != dfc_meta[i][2]]
        if with_state and not mutating:
            rep.count('internal-unavailable:scalar-argument-afterwards(argument not modified)')
        sub = mutating[::3]
        if sub:
            fn3 = "fun c => let '(p, cs) := c in map (distance_from_coordinate_state p) cs"
            try:
                badst = C.coq_mismatches(IMPORTS, fn3, DFC_TY, 'list (list N)', [dfc_cases[i] for i in sub],
                                         [dfc_res[i][1] for i in sub], shard=24)
            except C.ModelUnavailable:
                badst = None
            if badst is None:
                rep.count('internal-unavailable:scalar-argument-afterwards(not evaluable)')
            else:
                rep.count('internal-agrees:scalar-argument-afterwards(batches)', len(sub) - len(badst))
                if badst:
                    rep.count('internal-differs:scalar-argument-afterwards(batches)', len(badst))

    compare()
    ncases = len(cfd_cases) + len(dfc_cases)
    cfd_cases, cfd_res, cfd_meta = [], [], []
    dfc_cases, dfc_res, dfc_meta = [], [], []
    # dtypes / memory layouts of the vectorised entry points
    for rn, what in ((runner_dt, 'dtype sweep'), (runner_cp, 'compositions')):
        try:
            out = rn.collect(max(5.0, deadline(200000) - (time.time() - t_dt)))
            merge(rep, out)
            for p, n, hs, sca in out['cfd']:
                cfd_cases.append((C.Nat(p), C.Nat(n), U.nlist(hs)))
                cfd_res.append(U.nrows(sca))
                cfd_meta.append((p, n, hs, sca))
            for p, n, cells, dsca in out['dfc']:
                dfc_cases.append((C.Nat(p), U.nrows(cells)))
                dfc_res.append((U.nlist(dsca), None))
                dfc_meta.append((p, n, cells, dsca, None))
        except U.ImplHang as e:
            rep.violation('impl-hangs', f'the entry points did not return on the {what} ({e})',
                          {'dir': 'hang', 'p': 7, 'n': 2, 'hs': [], 'cells': [], 'label': what})
        except U.ImplCrash as e:
            rep.violation('impl-crashes', f'the {what} failed: {e}',
                          {'dir': 'hang', 'p': 7, 'n': 2, 'hs': [], 'cells': [], 'label': what})
        rn.close()
    compare()
    ncases += len(cfd_cases) + len(dfc_cases)
    rep.extra['kernel_cases'] = ncases
    if tier != 'quick':
        kernel_sweep(rep)


def kernel_sweep(rep):
    """thorough tier: adjacency / round trip / range / classical identity of the MODEL for every
    distance of orders beyond C07_scope, evaluated inside the kernel in shards (no theorem is
    stated for them; a failure is reported as a violation of the property by the model)"""
    cases, metas = [], []
    for p, n in ((8, 2), (9, 2), (10, 2), (5, 3), (6, 3), (4, 4)):
        top = 1 << (n * p)
        step = 2048
        for lo in range(0, top, step):
            cases.append((C.Nat(p), C.Nat(n), U.NN(lo), U.NN(min(step, top - lo))))
            metas.append((p, n, lo))
    fn = "fun c => let '(p, n, lo, cnt) := c in check_d_range p n lo cnt"
    bad = C.coq_mismatches('Model.Hilbert Spec.Curve Proofs.HilbertUpto', fn, 'nat * nat * N * N', 'bool',
                           cases, [True] * len(cases), shard=8)
    rep.extra['kernel_sweep_distances'] = sum(int(str(c[3]).rstrip('%N')) for c in cases)
    for i in bad[:3]:
        p, n, lo = metas[i]
        rep.violation('model-sweep', 'the model violates round trip / adjacency / classical identity '
                                     'somewhere in a block of distances',
                      {'dir': 'cfd', 'p': p, 'n': n, 'hs': list(range(lo, lo + 8)), 'block_start': lo})


def locate_cfd(p, n, hs, vec):
    cases = [(C.Nat(p), C.Nat(n), [U.NN(h)]) for h in hs]
    bad = C.coq_mismatches(IMPORTS, CFD_FN, CFD_TY, CFD_RES, cases, [[U.nlist(r)] for r in vec], shard=32)
    return bad[0] if bad else 0


def locate_dfc(p, cells, dvec, st):
    fn2 = "fun c => let '(p, cs) := c in distances_from_coordinates p cs"
    cases = [(C.Nat(p), [U.nlist(c)]) for c in cells]
    bad = C.coq_mismatches(IMPORTS, fn2, DFC_TY, 'list N', cases, [[U.NN(d)] for d in dvec], shard=32)
    if bad:
        return bad[0], 'distance'
    if st is not None:
        fn3 = "fun c => let '(p, cs) := c in map (distance_from_coordinate_state p) cs"
        bad = C.coq_mismatches(IMPORTS, fn3, DFC_TY, 'list (list N)', cases,
                               [[U.nlist(s)] for s in st], shard=32)
        if bad:
            return bad[0], 'state'
    return 0, 'distance'


def replay(rep, rp):
    p, n = int(rp['p']), int(rp['n'])
    hs = [int(h) for h in rp.get('hs', [])]
    cells = [[int(x) for x in c] for c in rp.get('cells', [])]
    runner = U.ImplRunner(IMPL_TABLE)
    if rp.get('dir') == 'compose':
        kind, route, dt = rp['kind'], rp['route'], rp['dtype']
        inputs = cells if kind == 'cells' else hs
        try:
            mid, back, desc = runner.call('compose_one', (kind, route, p, n, dt, inputs), deadline(10))
        except (U.ImplHang, U.ImplCrash) as e:
            print('the implementation does not return / failed:', e)
            return False
        finally:
            runner.close()
        print(f'{kind} held in {dt}, route {route} ({desc}):', inputs, '->', mid, '->', back)
        ok = back == inputs
        # the intermediate values and the int64 path: the ordinary checks on the same inputs
        sub = dict(rp, dir='dfc' if kind == 'cells' else 'cfd')
        ok2 = replay(rep, sub)
        return ok and ok2
    if rp.get('dir') == 'argtype':
        print('p, n as numpy', rp.get('type'), '- rerun of the argument-type block:')
        try:
            out = runner.call('impl_argtypes', (1,), deadline(10))
        except (U.ImplHang, U.ImplCrash) as e:
            print('the implementation does not return / failed:', e)
            return False
        finally:
            runner.close()
        for sig, what, r in out:
            print(' ', sig, '-', what, r)
        return not out
    if rp.get('dir') == 'dtype' and rp.get('form') == 'scalar':
        entry, dt = rp['entry'], rp['dtype']
        inputs = cells if entry == 'dfc' else hs
        try:
            got, err, names = runner.call('call_scalar', (entry, p, n, dt, inputs), deadline(10))
            ref, _, _ = runner.call('call_scalar', (entry, p, n, 'int64', inputs), deadline(10))
        except (U.ImplHang, U.ImplCrash) as e:
            print('the implementation does not return / failed:', e)
            return False
        finally:
            runner.close()
        print(f'scalar {entry} on {dt}:', got if err is None else 'raised ' + err, 'returned', names,
              '| on int64:', ref)
        ok = err is None and got == ref
        ok2 = replay(rep, {**rp, 'dir': entry})
        return ok and ok2
    if rp.get('dir') == 'dtype':
        entry, dt, layout = rp['entry'], rp['dtype'], rp['layout']
        inputs = cells if entry == 'dfc' else hs
        try:
            got, err, rdt, same = runner.call('call_vectorised', (entry, p, n, dt, layout, inputs), deadline(10))
            ref = runner.call('call_vectorised', (entry, p, n, 'int64', 'C', inputs), deadline(10))[0]
        except (U.ImplHang, U.ImplCrash) as e:
            print('the implementation does not return / failed:', e)
            return False
        finally:
            runner.close()
        print(f'{entry} on {dt}/{layout}:', got if err is None else 'raised ' + err, 'dtype', rdt,
              '| int64/C:', ref, '| argument unchanged:', same)
        top = (1 << (n * p)) if entry == 'dfc' else (1 << p)
        ok = err is None and got == ref and same and np.iinfo(np.dtype(rdt)).max >= top - 1
        # fall through to the ordinary checks on the same inputs
        rp = {**rp, 'dir': entry}
        return ok and replay(rep, rp)
    try:
        out = runner.call('impl_item', (rp.get('label', 'sample'), p, n, hs, cells, 1),
                          deadline(len(hs) + len(cells)))
    except U.ImplHang as e:
        print('the implementation does not return:', e)
        return False
    except U.ImplCrash as e:
        print('the implementation process failed:', e)
        return False
    finally:
        runner.close()
    ok = True
    for sig, what, _ in out['violations']:
        print('direct check fails:', sig, '-', what)
        ok = False
    vec, dvec, st = out['vec'], out['dvec'], out['states']
    if vec is None or dvec is None:
        return False
    if hs:
        print('coordinates_from_distances:', vec)
        bad = C.coq_mismatches(IMPORTS, CFD_FN, CFD_TY, CFD_RES,
                               [(C.Nat(p), C.Nat(n), U.nlist(hs))], [U.nrows(vec)])
        print('model:', C.coq_eval(IMPORTS, f'coordinates_from_distances {p} {n} {C.coq(U.nlist(hs))}'))
        ok = ok and not bad
    if cells:
        print('distances_from_coordinates:', dvec, 'argument of the scalar entry afterwards:', st)
        fn2 = "fun c => let '(p, cs) := c in distances_from_coordinates p cs"
        bad = C.coq_mismatches(IMPORTS, fn2, DFC_TY, 'list N', [(C.Nat(p), U.nrows(cells))], [U.nlist(dvec)])
        print('model (distances, in-place state [informative only]):',
              C.coq_eval(IMPORTS, f'({DFC_FN}) ({p}%nat, {C.coq(U.nrows(cells))})'))
        ok = ok and not bad
    return ok


