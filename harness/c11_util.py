"""Helpers shared by the parquet checks C11 and C12: frames with several geometry
columns, real datasets on a scratch directory, Gallina encodings of JSON
metadata / bounds frames, the natural-sort correspondence stream."""
import glob as _glob
import json
import math
import os
import shutil
import tempfile

import numpy as np

from . import common as C
from . import geomgen as G


# --------------------------------------------------------------------------
# elements and frames
# --------------------------------------------------------------------------
def ncoords(el):
    return len(G.flat_coords(el))


def dask_safe(el):
    """arr[i] (hence np.asarray(arr), which Dask's tokenizer calls) raises for a nested
    element without any coordinate ([[ ]], [[], []]); that is C16's business, here such
    an element is replaced by the empty element."""
    if el is None or el == []:
        return el
    if isinstance(el[0], (list, tuple)) and ncoords(el) == 0:
        return []
    return el


def rand_elements(rng, kind, n, subtype, nan_p=0.0, lo=-8, hi=8, missing_p=0.15):
    isint = subtype.startswith('int')
    els = G.rand_elements(rng, kind, n, lo=lo, hi=hi, nan_p=0.0 if isint else nan_p,
                          missing_p=missing_p)
    return [dask_safe(e) for e in els]


def canon(x):
    """nested lists with NaN made comparable"""
    if isinstance(x, (list, tuple)):
        return [canon(v) for v in x]
    if isinstance(x, (float, np.floating)) and not math.isfinite(x):
        return repr(float(x))
    if isinstance(x, (float, np.floating)) and float(x) == int(x):
        return int(x)
    if isinstance(x, np.generic):
        return canon(x.item())
    return x


def arrow_of(arr):
    """the Arrow array behind a geometry array, through the public __arrow_array__ protocol"""
    import pyarrow as pa
    a = pa.array(arr)
    if isinstance(a, pa.ChunkedArray):
        a = pa.concat_arrays(a.chunks)
    return a


def array_pylist(arr):
    """the elements of a geometry array as nested Python lists (None = missing)"""
    return canon(arrow_of(arr).to_pylist())


def kind_of_dtype(dt):
    """kind name of a geometry dtype, by its public class"""
    from spatialpandas import geometry as g
    classes = {'point': g.PointDtype, 'multipoint': g.MultiPointDtype, 'ring': g.RingDtype,
               'line': g.LineDtype, 'multiline': g.MultiLineDtype, 'polygon': g.PolygonDtype,
               'multipolygon': g.MultiPolygonDtype}
    for k in ('ring', 'point', 'multipoint', 'line', 'multiline', 'polygon', 'multipolygon'):
        if type(dt) is classes[k]:
            return k
    return None


def make_geo_array(rng, kind, subtype, n, derive_steps=0, nan_p=0.0, all_missing=False):
    """an array of exactly n elements, optionally cut out of / glued from larger
    arrays so that its buffers have a non-zero offset or several chunks' history"""
    if derive_steps == 0:
        els = rand_elements(rng, kind, n, subtype, nan_p)
        if all_missing:
            els = [None] * n
        return G.make_array(kind, els, subtype), ('plain',)
    mode = rng.choice(['slice', 'concat', 'take'])
    if mode == 'slice':
        a = rng.randint(1, 3)
        b = rng.randint(0, 2)
        els = rand_elements(rng, kind, n + a + b, subtype, nan_p)
        arr = G.make_array(kind, els, subtype)[a:a + n]
        return arr, ('slice', a, b)
    if mode == 'concat':
        k = rng.randint(0, n)
        e1 = rand_elements(rng, kind, k + 1, subtype, nan_p)
        e2 = rand_elements(rng, kind, n - k + 1, subtype, nan_p)
        a1 = G.make_array(kind, e1, subtype)[1:]
        a2 = G.make_array(kind, e2, subtype)[:-1]
        import pandas as pd
        return pd.concat([pd.Series(a1), pd.Series(a2)], ignore_index=True).array, ('concat', k)
    els = rand_elements(rng, kind, n + 2, subtype, nan_p)
    idx = [rng.randrange(n + 2) for _ in range(n)]
    arr = G.make_array(kind, els, subtype).take(np.array(idx, dtype='int64'))
    return arr, ('take', idx)


INDEX_KINDS = ['range', 'named', 'unnamed', 'nonunique', 'str', 'range_named', 'range_step',
               'hilbert_distance', 'multi', 'multi_unnamed', 'decreasing', 'nonunique_shuffled']


def make_index(rng, kind, n):
    import pandas as pd
    if kind == 'range':
        return None
    if kind == 'named':
        vals = list(range(100, 100 + n))
        rng.shuffle(vals)
        return pd.Index(vals, name='key')
    if kind == 'unnamed':
        vals = list(range(50, 50 + n))
        rng.shuffle(vals)
        return pd.Index(vals)
    if kind == 'nonunique':
        return pd.Index(sorted(rng.randrange(0, max(2, n // 2)) for _ in range(n)), name='dup')
    if kind == 'decreasing':
        return pd.Index(list(range(200 + n, 200, -1)), name='dec')
    if kind == 'nonunique_shuffled':
        vals = [j // 2 for j in range(n)]
        rng.shuffle(vals)
        if n > 1 and vals == sorted(vals):
            vals = vals[::-1]
        return pd.Index(vals, name='dupsh')
    if kind == 'str':
        return pd.Index([f's{j:03d}' for j in range(n)])
    if kind == 'range_named':
        return pd.RangeIndex(n, name='r')
    if kind == 'range_step':
        return pd.RangeIndex(10, 10 + 2 * n, 2)
    if kind == 'hilbert_distance':
        return pd.Index(sorted(rng.randrange(0, 1000) for _ in range(n)), name='hilbert_distance')
    if kind == 'multi':
        return pd.MultiIndex.from_tuples([(j // 3, f'b{j % 3}') for j in range(n)], names=['m', 'n'])
    if kind == 'multi_unnamed':
        return pd.MultiIndex.from_tuples([(j // 3, f'b{j % 3}') for j in range(n)])
    raise ValueError(kind)


def make_frame(rng, n, geom_cols, index_kind='range', derive_steps=0, nan_p=0.0,
               payload=('v', 'f', 's'), all_missing_col=None):
    """GeoDataFrame with geometry columns geom_cols = [(name, kind, subtype)], unique payload
    v (int), f (float with a NaN), s (str)"""
    import pandas as pd
    from spatialpandas import GeoDataFrame
    data = {}
    desc = {}
    order = []
    for name, kind, st in geom_cols:
        arr, d = make_geo_array(rng, kind, st, n, derive_steps, nan_p,
                                all_missing=(name == all_missing_col))
        data[name] = arr
        desc[name] = d
        order.append(name)
    if 'v' in payload:
        data['v'] = np.arange(1000, 1000 + n, dtype='int64')
    if 'f' in payload:
        f = np.arange(n, dtype='float64') / 4
        if n > 1:
            f[1] = np.nan
        data['f'] = f
    if 's' in payload:
        data['s'] = [f'row{j}' for j in range(n)]
    # interleave payload and geometry columns
    names = list(data)
    rng.shuffle(names)
    df = GeoDataFrame({k: data[k] for k in names}, index=make_index(rng, index_kind, n))
    return df, desc


def frame_desc(df):
    from spatialpandas.geometry import GeometryDtype
    return {'columns': [(c, str(df[c].dtype)) for c in df.columns],
            'index': repr(df.index)[:120], 'nrows': len(df),
            'geometry': {c: array_pylist(df[c].array) for c in df.columns
                         if isinstance(df[c].dtype, GeometryDtype)}}


class Scratch:
    """a scratch directory outside /repo and /verif, removed on exit"""

    def __enter__(self):
        self.dir = tempfile.mkdtemp(prefix='sp_pq_')
        self.k = 0
        return self

    def new(self, stem='d'):
        self.k += 1
        return os.path.join(self.dir, f'{stem}{self.k}')

    def __exit__(self, *a):
        shutil.rmtree(self.dir, ignore_errors=True)


# --------------------------------------------------------------------------
# Gallina encodings
# --------------------------------------------------------------------------
def nN(i):
    return C.Raw(f"{int(i)}%N")


def gnum(x):
    """JSON number / pandas float -> num (NaN -> None); bounds are integral here"""
    return C.num(x)


def bbox_rows(frame):
    """a bounds DataFrame (x0,y0,x1,y1) -> list of model bbox tuples, in row order"""
    return [tuple(gnum(v) for v in row)
            for row in frame[['x0', 'y0', 'x1', 'y1']].to_numpy(dtype='float64').tolist()]


def colbounds(pb):
    """{col: frame} -> model colbounds (dict order)"""
    return [(str(c), bbox_rows(f)) for c, f in pb.items()]


def raw_spatial_metadata(dataset_dir):
    """the spatialpandas JSON of a dataset's _common_metadata, parsed keeping the document
    order of every object: {col: [(x0|y0|x1|y1, [(key, value), ...]), ...]}; None if absent"""
    import pyarrow.parquet as pq
    p = os.path.join(dataset_dir, '_common_metadata')
    if not os.path.exists(p):
        return None
    md = pq.read_metadata(p).metadata
    if b'spatialpandas' not in md:
        return None
    raw = md[b'spatialpandas'].decode('utf')
    doc = json.loads(raw, object_pairs_hook=lambda pairs: pairs)
    doc = dict(doc)
    if 'partition_bounds' not in doc:
        return None
    return [(col, cols) for col, cols in doc['partition_bounds']]


def json_cols_term(cols):
    """[(x0, entries), ...] -> Build_bounds_json term"""
    d = dict(cols)
    ent = lambda k: [(str(key), gnum(v)) for key, v in d.get(k, [])]
    return C.Rec('Build_bounds_json', ent('x0'), ent('y0'), ent('x1'), ent('y1'))


def dataset_term(raw):
    """raw_spatial_metadata result -> option (list (string * bounds_json))"""
    if raw is None:
        return None
    return C.Some([(str(col), json_cols_term(cols)) for col, cols in raw])


def qbox_term(box):
    return None if box is None else C.Some(tuple(gnum(v) for v in box))


# --------------------------------------------------------------------------
# natural sort: dask.utils.natural_sort_key vs Model/NatSort.v
# --------------------------------------------------------------------------
NS_IMPORTS = 'Model.NatSort'
NS_FN = 'nsk_all'
NS_CASE_TY = 'list string'
NS_RES_TY = 'list (list tok) * list string'


def py_key_term(key):
    return [C.Raw(f'(inr {int(p)}%N)') if isinstance(p, int) else C.Raw(f'(inl {C.coq(p)})')
            for p in key]


def natsort_cases(rng, nrandom, max_parts=16):
    """lists of path strings: part.N.parquet families in shuffled order (N up to max_parts and
    some large / zero-padded numbers) and short random strings over a digit-heavy alphabet"""
    cases = []
    for n in list(range(1, max_parts + 1)) + [21, 101]:
        for d in ('/tmp/sp_x1/ds', 'ds10/a', ''):
            names = [f'{d}/part.{i}.parquet' for i in range(n)]
            rng.shuffle(names)
            cases.append(names)
    cases.append(['part.9.parquet', 'part.10.parquet', 'part.010.parquet', 'part.1e3.parquet',
                  'part..parquet', 'part.99999999999999999999.parquet', 'part.2.parquet'])
    alpha = 'a.Z/019_-'
    for _ in range(nrandom):
        k = rng.randint(1, 5)
        cases.append([''.join(rng.choice(alpha) for _ in range(rng.randint(0, 7))) for _ in range(k)])
    return cases


def natsort_check(rep, cases, pid):
    from dask.utils import natural_sort_key
    results = []
    for names in cases:
        keys = [natural_sort_key(s) for s in names]
        results.append(([py_key_term(k) for k in keys], sorted(names, key=natural_sort_key)))
        rep.evaluations += 1
        rep.count('natsort')
        if len(names) > 10:
            rep.nontrivial(('natsort', tuple(names)))
    bad = C.coq_mismatches(NS_IMPORTS, NS_FN, NS_CASE_TY, NS_RES_TY, cases, results)
    for i in bad[:5]:
        rep.violation('natsort-differs', 'dask.utils.natural_sort_key / sorted() differ from Model/NatSort.v',
                      {'stream': 'natsort', 'names': cases[i],
                       'impl_sorted': results[i][1],
                       'model': C.coq_eval(NS_IMPORTS, f'{NS_FN} {C.coq(cases[i])}')})


def expand(paths_or_glob):
    if isinstance(paths_or_glob, str):
        return sorted(_glob.glob(paths_or_glob))
    return list(paths_or_glob)
