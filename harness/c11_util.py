"""Helpers shared by the parquet checks C11 and C12: frames with several geometry
columns, real datasets on a scratch directory, Gallina encodings of JSON
metadata / bounds frames, the natural-sort correspondence stream."""
import glob as _glob
import json
import math
import os
import shutil
import tempfile

import numpy as np

from . import common as C
from . import geomgen as G


# --------------------------------------------------------------------------
# elements and frames
# --------------------------------------------------------------------------
def ncoords(el):
    return len(G.flat_coords(el))


def dask_safe(el):
    """arr[i] (hence np.asarray(arr), which Dask's tokenizer calls) raises for a nested
    element without any coordinate ([[ ]], [[], []]); that is C16's business, here such
    an element is replaced by the empty element."""
    if el is None or el == []:
        return el
    if isinstance(el[0], (list, tuple)) and ncoords(el) == 0:
        return []
    return el


def rand_elements(rng, kind, n, subtype, nan_p=0.0, lo=-8, hi=8, missing_p=0.15):
    isint = subtype.startswith('int')
    els = G.rand_elements(rng, kind, n, lo=lo, hi=hi, nan_p=0.0 if isint else nan_p,
                          missing_p=missing_p)
    return [dask_safe(e) for e in els]


def canon(x):
    """nested lists with NaN made comparable"""
    if isinstance(x, (list, tuple)):
        return [canon(v) for v in x]
    if isinstance(x, (float, np.floating)) and not math.isfinite(x):
        return repr(float(x))
    if isinstance(x, (float, np.floating)) and float(x) == int(x):
        return int(x)
    if isinstance(x, np.generic):
        return canon(x.item())
    return x


def arrow_of(arr):
    """the Arrow array behind a geometry array, through the public __arrow_array__ protocol"""
    import pyarrow as pa
    a = pa.array(arr)
    if isinstance(a, pa.ChunkedArray):
        a = pa.concat_arrays(a.chunks)
    return a


def array_pylist(arr):
    """the elements of a geometry array as nested Python lists (None = missing)"""
    return canon(arrow_of(arr).to_pylist())


def kind_of_dtype(dt):
    """kind name of a geometry dtype, by its public class"""
    from spatialpandas import geometry as g
    classes = {'point': g.PointDtype, 'multipoint': g.MultiPointDtype, 'ring': g.RingDtype,
               'line': g.LineDtype, 'multiline': g.MultiLineDtype, 'polygon': g.PolygonDtype,
               'multipolygon': g.MultiPolygonDtype}
    for k in ('ring', 'point', 'multipoint', 'line', 'multiline', 'polygon', 'multipolygon'):
        if type(dt) is classes[k]:
            return k
    return None


def make_geo_array(rng, kind, subtype, n, derive_steps=0, nan_p=0.0, all_missing=False):
    """an array of exactly n elements, optionally cut out of / glued from larger
    arrays so that its buffers have a non-zero offset or several chunks' history"""
    if derive_steps == 0:
        els = rand_elements(rng, kind, n, subtype, nan_p)
        if all_missing:
            els = [None] * n
        return G.make_array(kind, els, subtype), ('plain',)
    mode = rng.choice(['slice', 'concat', 'take'])
    if mode == 'slice':
        a = rng.randint(1, 3)
        b = rng.randint(0, 2)
        els = rand_elements(rng, kind, n + a + b, subtype, nan_p)
        arr = G.make_array(kind, els, subtype)[a:a + n]
        return arr, ('slice', a, b)
    if mode == 'concat':
        k = rng.randint(0, n)
        e1 = rand_elements(rng, kind, k + 1, subtype, nan_p)
        e2 = rand_elements(rng, kind, n - k + 1, subtype, nan_p)
        a1 = G.make_array(kind, e1, subtype)[1:]
        a2 = G.make_array(kind, e2, subtype)[:-1]
        import pandas as pd
        return pd.concat([pd.Series(a1), pd.Series(a2)], ignore_index=True).array, ('concat', k)
    els = rand_elements(rng, kind, n + 2, subtype, nan_p)
    idx = [rng.randrange(n + 2) for _ in range(n)]
    arr = G.make_array(kind, els, subtype).take(np.array(idx, dtype='int64'))
    return arr, ('take', idx)


INDEX_KINDS = ['range', 'named', 'unnamed', 'nonunique', 'str', 'range_named', 'range_step',
               'hilbert_distance', 'multi', 'multi_unnamed', 'decreasing', 'nonunique_shuffled']


def make_index(rng, kind, n):
    import pandas as pd
    if kind == 'range':
        return None
    if kind == 'named':
        vals = list(range(100, 100 + n))
        rng.shuffle(vals)
        return pd.Index(vals, name='key')
    if kind == 'unnamed':
        vals = list(range(50, 50 + n))
        rng.shuffle(vals)
        return pd.Index(vals)
    if kind == 'nonunique':
        return pd.Index(sorted(rng.randrange(0, max(2, n // 2)) for _ in range(n)), name='dup')
    if kind == 'decreasing':
        return pd.Index(list(range(200 + n, 200, -1)), name='dec')
    if kind == 'nonunique_shuffled':
        vals = [j // 2 for j in range(n)]
        rng.shuffle(vals)
        if n > 1 and vals == sorted(vals):
            vals = vals[::-1]
        return pd.Index(vals, name='dupsh')
    if kind == 'str':
        return pd.Index([f's{j:03d}' for j in range(n)])
    if kind == 'range_named':
        return pd.RangeIndex(n, name='r')
    if kind == 'range_step':
        return pd.RangeIndex(10, 10 + 2 * n, 2)
    if kind == 'hilbert_distance':
        return pd.Index(sorted(rng.randrange(0, 1000) for _ in range(n)), name='hilbert_distance')
    if kind == 'multi':
        return pd.MultiIndex.from_tuples([(j // 3, f'b{j % 3}') for j in range(n)], names=['m', 'n'])
    if kind == 'multi_unnamed':
        return pd.MultiIndex.from_tuples([(j // 3, f'b{j % 3}') for j in range(n)])
    raise ValueError(kind)


def make_frame(rng, n, geom_cols, index_kind='range', derive_steps=0, nan_p=0.0,
               payload=('v', 'f', 's'), all_missing_col=None):
    """GeoDataFrame with geometry columns geom_cols = [(name, kind, subtype)], unique payload
    v (int), f (float with a NaN), s (str)"""
    import pandas as pd
    from spatialpandas import GeoDataFrame
    data = {}
    desc = {}
    order = []
    for name, kind, st in geom_cols:
        arr, d = make_geo_array(rng, kind, st, n, derive_steps, nan_p,
                                all_missing=(name == all_missing_col))
        data[name] = arr
        desc[name] = d
        order.append(name)
    if 'v' in payload:
        data['v'] = np.arange(1000, 1000 + n, dtype='int64')
    if 'f' in payload:
        f = np.arange(n, dtype='float64') / 4
        if n > 1:
            f[1] = np.nan
        data['f'] = f
    if 's' in payload:
        data['s'] = [f'row{j}' for j in range(n)]
    # interleave payload and geometry columns
    names = list(data)
    rng.shuffle(names)
    df = GeoDataFrame({k: data[k] for k in names}, index=make_index(rng, index_kind, n))
    return df, desc


def frame_desc(df):
    from spatialpandas.geometry import GeometryDtype
    return {'columns': [(c, str(df[c].dtype)) for c in df.columns],
            'index': repr(df.index)[:120], 'nrows': len(df),
            'geometry': {c: array_pylist(df[c].array) for c in df.columns
                         if isinstance(df[c].dtype, GeometryDtype)}}


class Scratch:
    """a scratch directory outside /repo and /verif, removed on exit"""

    def __enter__(self):
        self.dir = tempfile.mkdtemp(prefix='sp_pq_')
        self.k = 0
        return self

    def new(self, stem='d'):
        self.k += 1
        return os.path.join(self.dir, f'{stem}{self.k}')

    def __exit__(self, *a):
        shutil.rmtree(self.dir, ignore_errors=True)


# --------------------------------------------------------------------------
# Gallina encodings
# --------------------------------------------------------------------------
def nN(i):
    return C.Raw(f"{int(i)}%N")


def gnum(x):
    """JSON number / pandas float -> num (NaN -> None); bounds are integral here"""
    return C.num(x)


def bbox_rows(frame):
    """a bounds DataFrame (x0,y0,x1,y1) -> list of model bbox tuples, in row order"""
    return [tuple(gnum(v) for v in row)
            for row in frame[['x0', 'y0', 'x1', 'y1']].to_numpy(dtype='float64').tolist()]


def colbounds(pb):
    """{col: frame} -> model colbounds (dict order)"""
    return [(str(c), bbox_rows(f)) for c, f in pb.items()]


def raw_spatial_metadata(dataset_dir):
    """the spatialpandas JSON of a dataset's _common_metadata, parsed keeping the document
    order of every object: {col: [(x0|y0|x1|y1, [(key, value), ...]), ...]}; None if absent"""
    import pyarrow.parquet as pq
    p = os.path.join(dataset_dir, '_common_metadata')
    if not os.path.exists(p):
        return None
    md = pq.read_metadata(p).metadata
    if b'spatialpandas' not in md:
        return None
    raw = md[b'spatialpandas'].decode('utf')
    doc = json.loads(raw, object_pairs_hook=lambda pairs: pairs)
    doc = dict(doc)
    if 'partition_bounds' not in doc:
        return None
    return [(col, cols) for col, cols in doc['partition_bounds']]


def json_cols_term(cols):
    """[(x0, entries), ...] -> Build_bounds_json term"""
    d = dict(cols)
    ent = lambda k: [(str(key), gnum(v)) for key, v in d.get(k, [])]
    return C.Rec('Build_bounds_json', ent('x0'), ent('y0'), ent('x1'), ent('y1'))


def dataset_term(raw):
    """raw_spatial_metadata result -> option (list (string * bounds_json))"""
    if raw is None:
        return None
    return C.Some([(str(col), json_cols_term(cols)) for col, cols in raw])


def qbox_term(box):
    return None if box is None else C.Some(tuple(gnum(v) for v in box))


# --------------------------------------------------------------------------
# natural sort: dask.utils.natural_sort_key vs Model/NatSort.v
# --------------------------------------------------------------------------
NS_IMPORTS = 'Model.NatSort'
NS_FN = 'nsk_all'
NS_CASE_TY = 'list string'
NS_RES_TY = 'list (list tok) * list string'


def py_key_term(key):
    return [C.Raw(f'(inr {int(p)}%N)') if isinstance(p, int) else C.Raw(f'(inl {C.coq(p)})')
            for p in key]


def natsort_cases(rng, nrandom, max_parts=16):
    """lists of path strings: part.N.parquet families in shuffled order (N up to max_parts and
    some large / zero-padded numbers) and short random strings over a digit-heavy alphabet"""
    cases = []
    for n in list(range(1, max_parts + 1)) + [21, 101]:
        for d in ('/tmp/sp_x1/ds', 'ds10/a', ''):
            names = [f'{d}/part.{i}.parquet' for i in range(n)]
            rng.shuffle(names)
            cases.append(names)
    cases.append(['part.9.parquet', 'part.10.parquet', 'part.010.parquet', 'part.1e3.parquet',
                  'part..parquet', 'part.99999999999999999999.parquet', 'part.2.parquet'])
    alpha = 'a.Z/019_-'
    for _ in range(nrandom):
        k = rng.randint(1, 5)
        cases.append([''.join(rng.choice(alpha) for _ in range(rng.randint(0, 7))) for _ in range(k)])
    return cases


def natsort_check(rep, cases, pid):
    from dask.utils import natural_sort_key
    results = []
    for names in cases:
        keys = [natural_sort_key(s) for s in names]
        results.append(([py_key_term(k) for k in keys], sorted(names, key=natural_sort_key)))
        rep.evaluations += 1
        rep.count('natsort')
        if len(names) > 10:
            rep.nontrivial(('natsort', tuple(names)))
    bad = C.coq_mismatches(NS_IMPORTS, NS_FN, NS_CASE_TY, NS_RES_TY, cases, results)
    for i in bad[:5]:
        rep.violation('natsort-differs', 'dask.utils.natural_sort_key / sorted() differ from Model/NatSort.v',
                      {'stream': 'natsort', 'names': cases[i],
                       'impl_sorted': results[i][1],
                       'model': C.coq_eval(NS_IMPORTS, f'{NS_FN} {C.coq(cases[i])}')})


def expand(paths_or_glob):
    if isinstance(paths_or_glob, str):
        return sorted(_glob.glob(paths_or_glob))
    return list(paths_or_glob)


# --------------------------------------------------------------------------
# round 4: names that look reserved, payload / index dtypes beyond int64 / float64 / str
# --------------------------------------------------------------------------
# Index (and column) NAMES a reader or writer might mistake for a placeholder: pandas' reset_index()
# labels, pyarrow's / Dask's placeholder spellings that are NOT the placeholders, attribute names of a
# frame, words that read like "no name", upper / lower case twins, separators, non-ASCII.  Left out on
# purpose: '__null_dask_index__' and '__index_level_<i>__' themselves (the file format cannot tell them
# from an unnamed index) and names that are not str (parquet field names are strings).
RESERVED_NAMES = ['index', 'level_0', 'level_1', 'Index', 'INDEX', '_index', '__index__', 'index_0',
                  'None', 'none', 'null', 'nan', 'NaN', '', ' ', '0', '-1',
                  'geometry', 'columns', 'name', 'names', 'values', 'dtype', 'id', 'idx', 'key_0',
                  'npartitions', 'divisions', 'partition', 'hilbert_distance', 'hilbert',
                  '__null_index__', '__dask_index__', '__index_level__', '__index_level_x__',
                  '__null_dask_index', 'null_dask_index', '_metadata', '_common_metadata',
                  'a.b', 'a b', 'a/b', 'a,b', 'ixé', '索引']


def _ns_values(rng, n, lo_year=1700, hi_year=2250):
    """epoch nanoseconds that are NOT whole microseconds (every value has non-zero sub-microsecond
    digits), distinct, inside datetime64[ns]'s range"""
    lo = (lo_year - 1970) * 365 * 86400 * 10 ** 9
    hi = (hi_year - 1970) * 365 * 86400 * 10 ** 9
    out = set()
    while len(out) < n:
        v = rng.randrange(lo, hi)
        if v % 1000 == 0:
            v += rng.randrange(1, 1000)
        out.add(v)
    out = list(out)
    rng.shuffle(out)
    if n > 2:
        out[0] = 1_700_000_000_123_456_789
        out[2] = -1                                   # one nanosecond before the epoch
    return out


def _ints(rng, n, lo, hi):
    """n distinct integers of [lo, hi] with both ends, 0 / +-1 and the neighbours of 2^53 where they fit"""
    pool = [lo, hi, 0, 1, -1, 2 ** 53 + 1, -(2 ** 53) - 1, lo + 1, hi - 1, 2 ** 31, 2 ** 32 - 1, 2 ** 63]
    vals = []
    for v in pool:
        if lo <= v <= hi and v not in vals:
            vals.append(v)
    rng.shuffle(vals)
    vals = vals[:n]
    while len(vals) < n:
        v = rng.randint(lo, hi)
        if v not in vals:
            vals.append(v)
    return vals


def _floats(rng, n, dtype):
    info = np.finfo(dtype)
    pool = [0.1, -0.0, 0.0, float(info.max), float(info.tiny), float(info.smallest_subnormal),
            -float(info.smallest_subnormal), 1.0 + float(info.eps), 2.0 ** 53 + 2, 1e-11, 123456.789e10,
            float('inf'), float('-inf'), float('nan')]
    rng.shuffle(pool)
    vals = pool[:n]
    while len(vals) < n:
        vals.append(rng.uniform(-1e6, 1e6) * 10.0 ** rng.randint(-20, 20))
    return np.array(vals, dtype='float64').astype(dtype)


def _strs(rng, n):
    pool = ['', ' ', 'a', 'A', 'None', 'nan', 'NULL', '0', 'x' * 300, 'café', '索引', 'tab\there',
            'line\nbreak', 'quote"s', "it's", 'a,b', 'é' * 40, 'zero\x00byte']
    rng.shuffle(pool)
    vals = pool[:n]
    while len(vals) < n:
        vals.append(''.join(rng.choice('abcXYZ 01_é') for _ in range(rng.randint(1, 12))) + str(len(vals)))
    return vals


def _holes(rng, vals, p=0.3):
    """some positions (at least one when there are two values) replaced by None"""
    out = [None if rng.random() < p else v for v in vals]
    if len(out) > 1 and all(v is not None for v in out):
        out[rng.randrange(len(out))] = None
    return out


def typed_values(rng, key, n, role='col'):
    """values of a non-geometry column (role 'col') or of an index (role 'index') of the dtype family
    `key`.  Index values carry no missing entries (Dask refuses them) and are distinct where cheap."""
    import pandas as pd
    col = role == 'col'
    if key.startswith('dt_ns') or key == 'dt_tz':
        ns = np.array(_ns_values(rng, n), dtype='int64')
        v = pd.to_datetime(ns, unit='ns')
        if key == 'dt_tz':
            v = v.tz_localize('UTC').tz_convert(rng.choice(['Europe/Berlin', 'UTC', 'Asia/Kolkata', 'America/St_Johns']))
        if key == 'dt_ns_nat' and col and n > 1:
            v = v.where(np.arange(n) != rng.randrange(n))
        return v
    if key in ('dt_us', 'dt_ms'):
        unit = key[3:]
        per = {'us': 10 ** 6, 'ms': 10 ** 3}[unit]
        vals = _ints(rng, n, -8 * 10 ** 9 * per, 8 * 10 ** 9 * per)      # about +-250 years
        return pd.to_datetime(np.array(vals, dtype='int64'), unit=unit)
    if key in ('td_ns', 'td_us'):
        unit = key[3:]
        vals = _ints(rng, n, -(10 ** 15), 10 ** 15)
        vals = [v if (unit != 'ns' or v % 1000) else v + 7 for v in vals]
        return pd.to_timedelta(np.array(vals, dtype='int64'), unit=unit)
    if key == 'bool':
        v = [bool(rng.getrandbits(1)) for _ in range(n)]
        if n > 1:
            v[0], v[1] = True, False
        return np.array(v, dtype='bool')
    if key in ('int8', 'int16', 'int32', 'int64', 'uint8', 'uint16', 'uint32', 'uint64'):
        ii = np.iinfo(key)
        lo, hi = int(ii.min), int(ii.max)
        if key == 'int64' and not col:
            # Dask's own writer (plain dask frames too) fails on an int64 index that holds INT64_MIN or
            # spans more than 2^63
            lo, hi = -(2 ** 61), 2 ** 61
        return np.array(_ints(rng, n, lo, hi), dtype=key)
    if key in ('float16', 'float32', 'float64'):
        return _floats(rng, n, key)
    if key in ('Int64', 'UInt8', 'Int16'):
        ii = np.iinfo(key.lower())
        return pd.array(_holes(rng, _ints(rng, n, int(ii.min), int(ii.max))), dtype=key)
    if key == 'Float64':
        return pd.array(_holes(rng, [float(x) for x in _floats(rng, n, 'float64') if x == x] + [0.5] * n)[:n],
                        dtype='Float64')
    if key == 'boolean':
        return pd.array(_holes(rng, [bool(rng.getrandbits(1)) for _ in range(n)]), dtype='boolean')
    if key == 'str':
        return pd.array(_strs(rng, n), dtype='str')
    if key == 'str_none':
        return pd.array(_holes(rng, _strs(rng, n)), dtype='str')
    if key == 'string':
        return pd.array(_holes(rng, _strs(rng, n)), dtype='string')
    if key in ('cat', 'cat_ord'):
        cats = ['lo', 'mid', 'hi', 'unused', 'Z', 'a']
        rng.shuffle(cats)
        cats = cats[:4]
        vals = [rng.choice(cats[:3]) for _ in range(n)]
        if key == 'cat' and col:
            vals = _holes(rng, vals)
        return pd.Categorical(vals, categories=cats, ordered=(key == 'cat_ord'))
    if key == 'period':
        return pd.period_range(rng.choice(['1999-11', '2020-01', '1969-12']), periods=n, freq=rng.choice(['M', 'D']))
    raise ValueError(key)


# dtype families of a non-geometry column that the unmodified round trip returns with identical
# dtype and values on both paths
COL_DTYPES = ['dt_ns', 'dt_ns_nat', 'dt_tz', 'dt_us', 'dt_ms', 'td_ns', 'td_us', 'bool',
              'int8', 'int16', 'int32', 'int64', 'uint8', 'uint16', 'uint32', 'uint64',
              'float16', 'float32', 'float64', 'Int64', 'UInt8', 'Int16', 'Float64', 'boolean',
              'str', 'str_none', 'string', 'cat', 'cat_ord', 'period']
# the same for an index (values; the width of an integer index is pandas' / Dask's business)
INDEX_DTYPES = ['dt_ns', 'dt_tz', 'dt_us', 'dt_ms', 'td_ns', 'td_us', 'int8', 'int32', 'int64',
                'uint8', 'uint32', 'uint64', 'float32', 'float64', 'str', 'cat_ord', 'bool']


def exact_item(x):
    """one value of a non-geometry column / an index as an exact, comparable token: integers as
    Python ints, floats by their binary64 bit pattern (so -0.0 != 0.0; every NaN alike), times as
    integer nanoseconds (+ time zone), missing as None"""
    import pandas as pd
    if x is None or x is pd.NA or x is pd.NaT:
        return None
    if isinstance(x, (bool, np.bool_)):
        return ('b', bool(x))
    if isinstance(x, (int, np.integer)):
        return ('i', int(x))
    if isinstance(x, (float, np.floating)):
        x = float(x)
        return ('f', 'nan') if x != x else ('f', x.hex())
    if isinstance(x, pd.Timestamp):
        return ('t', int(x.value), None if x.tz is None else str(x.tz))
    if isinstance(x, pd.Timedelta):
        return ('d', int(x.value))
    if isinstance(x, pd.Period):
        return ('p', int(x.ordinal), x.freqstr)
    if isinstance(x, np.datetime64):
        return exact_item(pd.Timestamp(x))
    if isinstance(x, np.timedelta64):
        return exact_item(pd.Timedelta(x))
    if isinstance(x, str):
        return ('s', x)
    if isinstance(x, bytes):
        return ('y', x)
    if isinstance(x, tuple):
        return tuple(exact_item(v) for v in x)
    return ('o', repr(x))


def exact_list(values):
    """tokens of all values; in a column that is not a float column NaN is pandas' missing marker"""
    dt = getattr(values, 'dtype', None)
    isfloat = isinstance(dt, np.dtype) and dt.kind == 'f'
    out = [exact_item(x) for x in list(values)]
    if not isfloat:
        out = [None if t == ('f', 'nan') else t for t in out]
    return out


def dtype_token(dt):
    """str(dtype), plus the categories and the ordered flag of a categorical"""
    import pandas as pd
    if isinstance(dt, pd.CategoricalDtype):
        return ('category', exact_list(dt.categories), bool(dt.ordered))
    return str(dt)
