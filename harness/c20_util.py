"""Helpers of the C20 correspondence check: building frames whose geometry columns
disagree about which rows a query box selects, applying the listed operations to the
real pandas / Dask objects, and putting what is observed in the model's types."""
import pickle

import numpy as np

from . import common as C
from . import geomgen as G

NROWS = 8
GEOM_NAMES = ['a', 'b', 'c', 'd', 'geometry', 'geom']
PLAIN_NAMES = ['v', 'w', 'z']

SIMPLE_POPS = ['OIlocSlice', 'OIlocList', 'OLocMask', 'OLocLabels', 'OBoolMask', 'OHead', 'OTail',
               'OSortValues', 'OSortIndex', 'OCopyDeep', 'OCopyShallow', 'OPickle']


# --------------------------------------------------------------------------
# data: every geometry column occupies the same region; row r of the column with
# shift s sits at position t = (r + s) mod NROWS, i.e. in [4t, 4t+1]^2.  A box over the
# positions t0..t1 therefore selects DIFFERENT rows depending on the column used.
# --------------------------------------------------------------------------
def shape_at(kind, t):
    x, y = 4 * t, 4 * t
    ring = [x, y, x + 1, y, x + 1, y + 1, x, y + 1, x, y]
    return {'point': [x + 0.5, y + 0.5], 'multipoint': [x + 0.5, y + 0.5, x + 0.75, y + 0.25], 'line': [x, y, x + 1, y + 1],
            'ring': ring, 'multiline': [[x, y, x + 1, y + 1]], 'polygon': [ring],
            'multipolygon': [[ring]]}[kind]


def geom_column(kind_idx, shift, n=NROWS):
    kind = G.KINDS[kind_idx]
    return G.make_array(kind, [shape_at(kind, (r + shift) % n) for r in range(n)])


# --------------------------------------------------------------------------
# non-geometry columns of every storage class.  The model knows two kinds of column (KGeom k,
# KPlain); a plain column is plain whatever holds it: a numpy block (int / float / bool /
# datetime64 / object) or a pandas EXTENSION array that is not a geometry (str, category, the
# nullable Int64 / boolean / Float64, tz-aware datetime, period, interval, sparse, arrow-backed).
# The label of a plain column selects its storage: name -> (maker(n, shift), Dask can carry it,
# parquet can carry it).  (Dask's own meta_nonempty cannot make an interval column, pyarrow cannot
# write interval / sparse: nothing to do with geometry, those are used on pandas only.)
# --------------------------------------------------------------------------
def _flavours():
    import pandas as pd
    return {
        'name_str': (lambda n, s: [f'site-{i + s}' for i in range(n)], True, True),
        'kind_cat': (lambda n, s: pd.Categorical(['abc'[(i + s) % 3] for i in range(n)]), True, True),
        'cnt_Int64': (lambda n, s: pd.array([i + s if (i + s) % 3 else None for i in range(n)], dtype='Int64'), True, True),
        'flag_boolean': (lambda n, s: pd.array([bool((i + s) % 2) if i % 3 else None for i in range(n)], dtype='boolean'), True, True),
        'val_Float64': (lambda n, s: pd.array([(i + s) / 2 if i % 4 else None for i in range(n)], dtype='Float64'), True, True),
        'ts_tz': (lambda n, s: pd.date_range('2020-01-01', periods=n, tz='Europe/Paris') + pd.Timedelta(days=s), True, True),
        'per_period': (lambda n, s: pd.period_range('2020-01', periods=n, freq='M') + s, True, True),
        'n_arrow': (lambda n, s: pd.array([i + s for i in range(n)], dtype='int64[pyarrow]'), True, True),
        's_arrow': (lambda n, s: pd.array([f's{i + s}' for i in range(n)], dtype='string[pyarrow]'), True, True),
        'ivl_interval': (lambda n, s: pd.interval_range(s, s + n), False, False),
        'sp_sparse': (lambda n, s: pd.arrays.SparseArray([0] * (n - 1) + [1 + s]), True, False),
        'obj_object': (lambda n, s: _object_array([(i + s, 'x') for i in range(n)]), False, False),
        # numpy blocks other than int64
        'f_float': (lambda n, s: (np.arange(n) + s) / 4, True, True),
        'flag_bool': (lambda n, s: (np.arange(n) + s) % 2 == 0, True, True),
        'ts_naive': (lambda n, s: (pd.date_range('2020-01-01', periods=n) + pd.Timedelta(days=s)).values, True, True),
    }


def _object_array(values):
    a = np.empty(len(values), dtype=object)
    for i, v in enumerate(values):
        a[i] = v
    return a


_FLAVOURS = {}


def flavours(scope='pandas'):
    """labels of the plain-column storages usable in `scope`: 'pandas' (all), 'dask', 'parquet'"""
    if not _FLAVOURS:
        _FLAVOURS.update(_flavours())
    return [k for k, (_m, d_ok, p_ok) in _FLAVOURS.items()
            if scope == 'pandas' or (scope == 'dask' and d_ok) or (scope == 'parquet' and d_ok and p_ok)]


def is_extension_flavour(name):
    return name in flavours() and name not in ('f_float', 'flag_bool', 'ts_naive', 'obj_object')


def unsorted_permutation(n):
    """a permutation of 0..n-1 that is NOT sorted (so that Dask's sort_values / set_index really
    shuffle), fixed by n alone"""
    if n == NROWS:
        return (np.arange(n) * 3 + 1) % n
    import math
    m = next(m for m in range(3, n + 3) if math.gcd(m, n) == 1) if n > 2 else 1
    return (np.arange(n) * m + 1) % n


def build_dict(cols, n=NROWS):
    """cols: [(name, kind_idx | None, shift)] -> dict of columns (insertion order kept)"""
    data = {}
    fl = flavours() and _FLAVOURS
    for name, k, shift in cols:
        if k is None:
            if name == 'v':
                data[name] = unsorted_permutation(n)
            elif name in fl:
                data[name] = fl[name][0](n, shift)
            else:
                data[name] = np.arange(n) * 10 + shift
        else:
            data[name] = geom_column(k, shift, n)
    return data


def box_over(t0, t1):
    """(x0, x1, y0, y1) containing exactly the shapes at positions t0..t1"""
    return (4 * t0 - 0.5, 4 * t1 + 1.5, 4 * t0 - 0.5, 4 * t1 + 1.5)


def rows_in_box(frame, name, box):
    """boolean mask of the rows of `frame` whose geometry in column `name` lies in the box,
    from the column's own bounds (shapes are wholly inside or wholly outside)"""
    b = np.asarray(frame[name].array.bounds, dtype=float)
    if len(b) == 0:
        return np.zeros(0, dtype=bool)
    x0, x1, y0, y1 = box
    return (b[:, 0] >= x0) & (b[:, 2] <= x1) & (b[:, 1] >= y0) & (b[:, 3] <= y1)


# --------------------------------------------------------------------------
# observation of real objects in the model's result types
# --------------------------------------------------------------------------
def private_ok():
    """is the private attribute GeoDataFrame._geometry there to be read (optional extra)"""
    from spatialpandas import GeoDataFrame
    return hasattr(GeoDataFrame, '_geometry')


def active(r):
    """the active geometry through the PUBLIC accessor: r.geometry.name; None when r is not a
    GeoDataFrame or .geometry raises (whatever it raises)"""
    from spatialpandas import GeoDataFrame
    from spatialpandas.geometry import GeometryDtype
    if not isinstance(r, GeoDataFrame):
        return None
    try:
        s = r.geometry
        return str(s.name) if isinstance(s.dtype, GeometryDtype) else 'not-a-geometry:' + str(s.name)
    except Exception:  # noqa: BLE001
        return None


def act_name(r):
    """public accessor first; the private attribute only as a fallback when .geometry raises"""
    a = active(r)
    if a is None and private_ok():
        a = getattr(r, '_geometry', None)
        a = None if a is None else str(a)
    return a


def pub(o):
    """the public part of an observation: (is GeoDataFrame, .geometry.name | None, columns)"""
    if is_bad(o):
        return o
    return (o[0], o[2], o[3])


def pub_opt(o):
    if o is None or is_bad(o):
        return o
    return C.Some(pub(o.v)) if isinstance(o, C.Some) else pub(o)


def pub_dask(o):
    if o is None or is_bad(o):
        return o
    d = o.v if isinstance(o, C.Some) else o
    if is_bad(d):
        return o
    r = (pub(d[0]), [pub_opt(p) for p in d[1]], pub_opt(d[2]))
    return C.Some(r) if isinstance(o, C.Some) else r


def coq_cols(cols):
    return [(name, C.Rec('KPlain') if k is None else C.Rec('KGeom', C.Nat(k))) for name, k, _s in cols]


def _kind_of_dtype(dt):
    from spatialpandas import geometry as g
    order = [g.PointDtype, g.MultiPointDtype, g.LineDtype, g.RingDtype, g.MultiLineDtype,
             g.PolygonDtype, g.MultiPolygonDtype]
    for i, c in enumerate(order):
        if type(dt) is c:
            return i
    return 0


def frame_rec(r):
    """a real frame as the model's [frame] (used for the other operands of concat)"""
    import pandas as pd
    from spatialpandas import GeoDataFrame
    from spatialpandas.geometry import GeometryDtype
    cols = [(str(c), C.Rec('KGeom', C.Nat(_kind_of_dtype(dt))) if isinstance(dt, GeometryDtype)
             else C.Rec('KPlain')) for c, dt in zip(r.columns, r.dtypes)]
    isgeo = isinstance(r, GeoDataFrame)
    act = act_name(r) if isgeo else None
    return C.Rec('mkFrame', cols, C.Raw('CGeo' if isgeo else 'CPlain'),
                 None if act is None else C.Some(str(act)))


def observe(r):
    """(is GeoDataFrame, _geometry, .geometry.name | None, [(label, is geometry dtype)])"""
    import pandas as pd
    from spatialpandas import GeoDataFrame
    from spatialpandas.geometry import GeometryDtype
    tn = type(r).__name__
    if not isinstance(r, pd.DataFrame) or tn not in ('GeoDataFrame', 'DataFrame'):
        return ('badtype', tn)
    isgeo = isinstance(r, GeoDataFrame)
    if isgeo != (tn == 'GeoDataFrame'):
        return ('badtype', tn)
    # the private attribute is an optional extra (compared only when it exists)
    act = getattr(r, '_geometry', None) if isgeo and private_ok() else None
    gname = active(r)
    cols = [(str(c), isinstance(dt, GeometryDtype)) for c, dt in zip(r.columns, r.dtypes)]
    return (isgeo, None if act is None else C.Some(str(act)),
            None if gname is None else C.Some(gname), cols)


def observe_dask(x, keep=None):
    """(meta obs, [partition obs | None], compute obs | None); `keep` receives the computed
    partition frames"""
    import dask.dataframe as dd
    from spatialpandas.dask import DaskGeoDataFrame
    if not isinstance(x, dd.DataFrame):
        return ('badtype', type(x).__name__)
    meta = observe(x._meta)
    if isinstance(meta[0], str):
        return meta
    if isinstance(x, DaskGeoDataFrame) != meta[0]:
        return ('badtype', f'{type(x).__name__} with {type(x._meta).__name__} meta')
    if meta[0]:
        # DaskGeoDataFrame.geometry is the column named by the meta
        try:
            gn = C.Some(str(x.geometry.name))
        except ValueError:
            gn = None
        if gn != meta[2]:
            return ('badtype', f'ddf.geometry.name={gn!r} but meta.geometry.name={meta[2]!r}')
    parts = []
    got_frames = []
    del LAST_ERRORS[:]
    wide = x.npartitions > WIDE_ABOVE
    if wide:
        # wide frames: all partitions of the collection itself in ONE pass (map_partitions over
        # the collection; the per-partition route below costs one graph optimisation per partition)
        grabbed = grab_partitions(x)
        if grabbed is not None:
            got_frames = grabbed
            parts = [C.Some(observe(p)) for p in grabbed]
        elif x.npartitions > 16:
            # (the per-partition route would take minutes; what raised is in LAST_ERRORS)
            got_frames = [None] * x.npartitions
            parts = [None] * x.npartitions
    # partition i of the collection itself (to_delayed() may optimise a repartition away and
    # show another partitioning than the one cx / partition_bounds / map_partitions work on)
    for i in range(x.npartitions if not parts else 0):
        try:
            p = x.partitions[i].compute(scheduler='synchronous')
            parts.append(C.Some(observe(p)))
            got_frames.append(p)
        except Exception as e:  # noqa: BLE001
            parts.append(None)
            got_frames.append(None)
            PART_ERRORS.append(_note('partition', e)[1:])
    if keep is not None:
        keep.extend(got_frames)
    try:
        comp = C.Some(observe(x.compute(scheduler='synchronous')))
    except AssertionError:
        # Dask's repartition asserts `npartitions_input > npartitions` when compute() collapses
        # a frame that pack_partitions / set_index left with fewer partitions than asked for
        # (one row, or one distinct key): not a question of the active geometry.  compute() is
        # what dask.dataframe.methods.concat makes of the partitions.
        import pandas as pd
        COMPUTE_ASSERTIONS[0] += 1
        fr = [f for f in got_frames if f is not None]
        if len(fr) != len(got_frames) or not fr:
            comp = None
        else:
            comp = C.Some(observe(fr[0] if len(fr) == 1 else pd.concat(fr)))
    except Exception as e:  # noqa: BLE001
        _note('compute', e)
        comp = None
    return (meta, parts, comp)


COMPUTE_ASSERTIONS = [0]
PART_ERRORS = []
LAST_ERRORS = []        # (where, exception type, file of the innermost frame) of the last observe_dask
WIDE_ABOVE = 8


def _note(where, e):
    import traceback
    tb = traceback.extract_tb(e.__traceback__)
    rec = (where, type(e).__name__, tb[-1].filename if tb else '')
    LAST_ERRORS.append(rec)
    return rec


def dask_internal_keyerror(e):
    """a KeyError raised by Dask's own task machinery (innermost frame inside the dask package)"""
    import traceback
    tb = traceback.extract_tb(e.__traceback__)
    return isinstance(e, KeyError) and bool(tb) and '/dask/' in tb[-1].filename


_SUBSET_BUG = []


def dask_task_shuffle_subset_bug():
    """Does the installed Dask raise KeyError when a SUBSET of the partitions of a multi-stage
    task-based shuffle (more than 32 partitions) is computed - with plain pandas frames, no
    spatialpandas object involved?  (dask 2026.8: ddf.sort_values(k, shuffle_method='tasks')
    .partitions[1:].compute() -> KeyError.)  Evaluated once per run; only when it is reproduced on
    plain pandas is the same KeyError met on geo frames attributed to Dask and not compared."""
    if not _SUBSET_BUG:
        import dask.dataframe as dd
        import pandas as pd
        n, k = 120, 40
        df = pd.DataFrame({'v': unsorted_permutation(n), 'w': np.arange(n)})
        r = dd.from_pandas(df, npartitions=k).sort_values('v', shuffle_method='tasks')
        try:
            r.partitions[list(range(1, r.npartitions))].compute(scheduler='synchronous')
            _SUBSET_BUG.append(False)
        except KeyError as e:
            _SUBSET_BUG.append(dask_internal_keyerror(e))
        except Exception:  # noqa: BLE001
            _SUBSET_BUG.append(False)
    return _SUBSET_BUG[0]


def grab_partitions(x):
    """the partitions of the collection `x` as the pandas objects its graph produces, in one
    synchronous pass: map_partitions hands every partition to a function that keeps it (the run is
    single-process, scheduler='synchronous').  None when the pass raises or does not visit every
    partition exactly once."""
    import pandas as pd
    store = {}

    def grab(p, partition_info=None):
        i = partition_info['number'] if partition_info else 0
        store.setdefault(i, []).append(p)
        return pd.DataFrame({'i': [i]})
    try:
        x.map_partitions(grab, meta=pd.DataFrame({'i': pd.Series([], dtype='int64')}),
                         enforce_metadata=False).compute(scheduler='synchronous')
    except Exception as e:  # noqa: BLE001
        _note('partitions', e)
        return None
    if sorted(store) != list(range(x.npartitions)) or any(len(v) != 1 for v in store.values()):
        return None
    return [store[i][0] for i in range(x.npartitions)]


def is_bad(o):
    return isinstance(o, tuple) and len(o) == 2 and o[0] == 'badtype'


# --------------------------------------------------------------------------
# pandas operations: op dicts -> Gallina / real application
# --------------------------------------------------------------------------
def pop_coq(op, other_recs=None):
    k = op['op']
    if k in SIMPLE_POPS or k in ('OCx', 'OGeoInit', 'OConstructor'):
        return C.Raw(k)
    if k in ('OSubset', 'ODrop'):
        return C.Rec(k, list(op['names']))
    if k in ('OAssign', 'OResetIndex'):
        return C.Rec(k, op['name'])
    if k == 'OMerge':
        return C.Rec(k, op['name'], bool(op['ident']))
    if k == 'ORename':
        return C.Rec(k, op['old'], op['new'])
    if k == 'OSetGeometry':
        return C.Rec(k, op['g'], bool(op['inplace']))
    if k == 'OConcat':
        return C.Rec(k, list(op['_before_recs']), list(op['_after_recs']))
    raise ValueError(k)


def derive_other(df, recipe):
    """another operand of pd.concat derived from the current frame"""
    import pandas as pd
    kind = recipe['kind']
    if kind == 'same':
        return df.copy()
    if kind == 'setgeom':
        return df.set_geometry(recipe['g'])
    if kind == 'plain':
        return pd.DataFrame(df)
    if kind == 'perm':
        return df[recipe['cols']]
    raise ValueError(kind)


def _plain_numeric_col(df):
    from spatialpandas.geometry import GeometryDtype
    for c, dt in zip(df.columns, df.dtypes):
        if isinstance(dt, np.dtype) and dt.kind in 'iuf':
            return c
    return None


def apply_pop(df, op):
    """apply one listed operation to the real frame; raises what the library raises.
    For OConcat the model records of the other operands are stored in the op."""
    import pandas as pd
    from spatialpandas import GeoDataFrame
    k = op['op']
    n = len(df)
    if k == 'OIlocSlice':
        return df.iloc[op['a']:op['b']]
    if k == 'OIlocList':
        return df.iloc[[i % n for i in op['idx']] if n else []]
    if k == 'OLocMask':
        return df.loc[np.array([op['mask'][i % len(op['mask'])] for i in range(n)], dtype=bool)]
    if k == 'OBoolMask':
        return df[np.array([op['mask'][i % len(op['mask'])] for i in range(n)], dtype=bool)]
    if k == 'OLocLabels':
        labels = list(dict.fromkeys(df.index[[i % n for i in op['idx']]])) if n else []
        return df.loc[labels]
    if k == 'OHead':
        return df.head(op['k'])
    if k == 'OTail':
        return df.tail(op['k'])
    if k == 'OSortValues':
        c = _plain_numeric_col(df)
        if c is None:
            return df.sort_index(ascending=False)      # same class; recorded by the caller
        return df.sort_values(by=c, ascending=False)
    if k == 'OSortIndex':
        return df.sort_index(ascending=False)
    if k == 'OCopyDeep':
        return df.copy(deep=True)
    if k == 'OCopyShallow':
        return df.copy(deep=False)
    if k == 'OPickle':
        return pickle.loads(pickle.dumps(df))
    if k == 'OCx':
        x0, x1, y0, y1 = op['box']
        return df.cx[x0:x1, y0:y1]
    if k == 'OSubset':
        return df[list(op['names'])]
    if k == 'ODrop':
        return df.drop(columns=list(op['names']))
    if k == 'OAssign':
        return df.assign(**{op['name']: 1})
    if k == 'ORename':
        return df.rename(columns={op['old']: op['new']})
    if k == 'OResetIndex':
        return df.rename_axis(op['name']).reset_index()
    if k == 'OMerge':
        if op['ident']:
            # every row of df matches exactly one row of the other frame
            keys = np.arange(NROWS)
        else:
            # the first row of df matches twice, the others not at all
            keys = np.array([df['v'].iloc[0]] * 2)
        other = pd.DataFrame({'v': keys, op['name']: np.arange(len(keys)) * 2})
        return df.merge(other, on='v')
    if k == 'OConcat':
        before = [derive_other(df, r) for r in op['before']]
        after = [derive_other(df, r) for r in op['after']]
        op['_before_recs'] = [frame_rec(x) for x in before]
        op['_after_recs'] = [frame_rec(x) for x in after]
        return pd.concat(before + [df] + after)
    if k == 'OSetGeometry':
        if op['inplace']:
            r = df.set_geometry(op['g'], inplace=True)
            return r
        return df.set_geometry(op['g'])
    if k == 'OGeoInit':
        return GeoDataFrame(df)
    if k == 'OConstructor':
        return df._constructor(df)
    raise ValueError(k)


def pop_applicable(df, op):
    """preconditions that make the real call meaningful for the table row (the model is
    told the same thing; an inapplicable op is simply not generated)"""
    from spatialpandas.geometry import GeometryDtype
    k = op['op']
    cols = [str(c) for c in df.columns]
    if k == 'OMerge':
        return 'v' in cols and not isinstance(df['v'].dtype, GeometryDtype) \
            and op['name'] not in cols and len(df) > 0
    if k == 'OAssign':
        return op['name'] not in cols
    if k == 'ORename':
        return op['new'] not in cols
    if k == 'OSortValues':
        return _plain_numeric_col(df) is not None
    if k == 'OConcat':
        from spatialpandas import GeoDataFrame
        for r in op['before'] + op['after']:
            if r['kind'] == 'setgeom' and not (isinstance(df, GeoDataFrame) and r['g'] in cols
                                               and isinstance(df[r['g']].dtype, GeometryDtype)):
                return False
            if r['kind'] == 'perm' and sorted(r['cols']) != sorted(cols):
                return False
            if r['kind'] == 'same' and False:
                return False
        return True
    if k == 'OSetGeometry' and op['inplace']:
        from spatialpandas import GeoDataFrame
        return isinstance(df, GeoDataFrame)     # plain frames have no set_geometry: both raise
    return True


def strip_private(op):
    return {k: v for k, v in op.items() if not k.startswith('_')}


# --------------------------------------------------------------------------
# Dask operations
# --------------------------------------------------------------------------
def dop_coq(op):
    k = op['op']
    if k in ('DMask', 'DLocAll', 'DCopy', 'DPersist', 'DPickle', 'DMapIdentity', 'DConcatSelf',
             'DBuildSindex'):
        return C.Raw(k)
    if k in ('DSubset', 'DDrop'):
        return C.Rec(k, list(op['names']))
    if k in ('DAssign', 'DResetIndex', 'DSetGeometry'):
        return C.Rec(k, op['name'])
    if k == 'DRename':
        return C.Rec(k, op['old'], op['new'])
    if k in ('DPartitions', 'DCx', 'DCxPartitions'):
        return C.Rec(k, [C.Nat(i) for i in op['sel']])
    if k in ('DSortValues', 'DRepartition', 'DPackPartitions'):
        return C.Rec(k, C.Nat(op['nout']))
    if k == 'DSetIndex':
        return C.Rec(k, op['name'], C.Nat(op['nout']))
    raise ValueError(k)


def apply_dop(ddf, op):
    import dask.dataframe as dd
    k = op['op']
    if k == 'DSubset':
        return ddf[list(op['names'])]
    if k == 'DMask':
        return ddf[ddf['v'] >= op['k']]
    if k == 'DLocAll':
        return ddf.loc[op['lo']:op['hi']]
    if k == 'DAssign':
        return ddf.assign(**{op['name']: 1})
    if k == 'DDrop':
        return ddf.drop(columns=list(op['names']))
    if k == 'DRename':
        return ddf.rename(columns={op['old']: op['new']})
    if k == 'DResetIndex':
        return ddf.reset_index()
    if k == 'DCopy':
        return ddf.copy()
    if k == 'DPersist':
        return ddf.persist(scheduler='synchronous')
    if k == 'DPickle':
        import cloudpickle
        return pickle.loads(cloudpickle.dumps(ddf))
    if k == 'DPartitions':
        return ddf.partitions[list(op['sel'])]
    if k == 'DMapIdentity':
        return ddf.map_partitions(lambda df: df)
    if k == 'DConcatSelf':
        return dd.concat([ddf, ddf])
    if k == 'DSortValues':
        return ddf.sort_values('v')
    if k == 'DSetIndex':
        return ddf.set_index(op['name'])
    if k == 'DRepartition':
        return ddf.repartition(npartitions=op['want'])
    if k == 'DPackPartitions':
        return ddf.pack_partitions(npartitions=op['want'])
    if k == 'DCx':
        x0, x1, y0, y1 = op['box']
        return ddf.cx[x0:x1, y0:y1]
    if k == 'DCxPartitions':
        x0, x1, y0, y1 = op['box']
        return ddf.cx_partitions[x0:x1, y0:y1]
    if k == 'DBuildSindex':
        return ddf.build_sindex()
    if k == 'DSetGeometry':
        return ddf.set_geometry(op['name'])
    raise ValueError(k)


def partitions_meeting(frames, name, box):
    """indices of the partitions whose extent of column `name` meets the box"""
    x0, x1, y0, y1 = box
    sel = []
    for i, p in enumerate(frames):
        tb = np.asarray(p[name].total_bounds, dtype=float)
        if np.isnan(tb).any():
            continue
        if not (tb[2] < x0 or tb[3] < y0 or tb[0] > x1 or tb[1] > y1):
            sel.append(i)
    return sel
