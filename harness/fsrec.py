"""A recording / fault-injecting fsspec filesystem for C10, C19 (and whoever needs it).

`RecFS` is a `LocalFileSystem` subclass (so it passes `validate_coerce_filesystem`, and
because its class name is not 'LocalFileSystem' pyarrow drives it through
`FSSpecHandler`, i.e. every access of pyarrow / dask / spatialpandas goes through the
Python methods below).  It records every *top-level* call of a public filesystem
method (nested calls made by fsspec itself, e.g. `exists -> info`, are not counted)
as `(op, path-relative-to-root, ...)` and can inject one fault per scheduled
position of that top-level call sequence:

  'oserr'   raise OSError before the effect
  'fnf'     raise FileNotFoundError before the effect
  'after'   perform the whole effect, then raise OSError
            (rm / makedirs / mv / open-for-write: raised when the file is closed)
  'partial' perform part of the effect, then raise OSError
            (rm: remove a non-empty strict part of the subtree; makedirs: create only the
            first missing directory; open-for-write: create/truncate the file, write half of
            the first chunk, raise)
  'stale'   ls / find return a strict subset (the last entry in sorted order is dropped;
            'stale0' drops the first one)
  'lie'     exists / isfile / isdir / info behave as if the underlying stat failed:
            exists/isfile/isdir -> False, info -> FileNotFoundError (this is what
            fsspec's `exists` does with *any* error of `info`)

A plan value `(kind, r)` makes the same call (same op, same path) fail again the next
r-1 times it is made (a fault that persists across retries).

Positions are 1-based indices into the sequence of *faultable* top-level calls (every
recorded op except `invalidate_cache`).  A fault whose kind does not apply to the op at
its position degrades to 'oserr' ('stale' on a non-listing op, 'lie' on a non-stat op,
'partial' on a read-only op).
"""
import os
import shutil
import threading

from fsspec.implementations.local import LocalFileSystem

READ_OPS = ('exists', 'isfile', 'isdir', 'info', 'ls', 'find', 'open_r', 'size', 'lexists')
STAT_OPS = ('exists', 'isfile', 'isdir', 'info')
LIST_OPS = ('ls', 'find')
WRITE_OPS = ('makedirs', 'rm', 'mv', 'open_w', 'rm_file', 'mkdir', 'rmdir', 'touch')


class InjectedFault(OSError):
    pass


class InjectedNotFound(FileNotFoundError):
    pass


class _WFile:
    """proxy of a file opened for writing: lets a fault fire at the first write
    ('partial') or after the real close ('after')"""

    def __init__(self, f, mode, note):
        object.__setattr__(self, '_f', f)
        object.__setattr__(self, '_mode', mode)
        object.__setattr__(self, '_note', note)
        object.__setattr__(self, '_fired', False)

    def __getattr__(self, k):
        return getattr(object.__getattribute__(self, '_f'), k)

    def write(self, b):
        if self._mode == 'partial' and not self._fired:
            object.__setattr__(self, '_fired', True)
            data = bytes(b)
            self._f.write(data[:max(1, len(data) // 2)])     # a torn write: some bytes made it
            self._f.flush()
            raise InjectedFault('injected: write failed after part of the data was written')
        return self._f.write(b)

    def close(self):
        was_closed = self._f.closed
        self._f.close()
        if not was_closed and self._note is not None:
            self._note()
        if self._mode == 'after' and not self._fired and not was_closed:
            object.__setattr__(self, '_fired', True)
            raise InjectedFault('injected: close reported failure after the data was written')

    @property
    def closed(self):
        return self._f.closed

    def __enter__(self):
        self._f.__enter__()
        return self

    def __exit__(self, *a):
        self.close()
        return False

    def __iter__(self):
        return iter(self._f)


class RecFS(LocalFileSystem):
    cachable = False

    def __init__(self, root, plan=None, **kw):
        super().__init__(**kw)
        self.root = os.path.realpath(root)
        self.trace = []          # (op, relpath[, relpath2]) of every top-level call
        self.nfault = 0          # number of faultable top-level calls so far
        self.plan = dict(plan or {})   # position -> kind
        self.fired = []          # (position, kind applied, op, relpath)
        self.on_write_closed = None    # callback(relpath) after a file written through us is closed
        self._tl = threading.local()
        self._sticky = {}

    # ------------------------------------------------------------ helpers
    def rel(self, p):
        p = self._strip_protocol(p if not isinstance(p, (list, tuple)) else p[0])
        if p == self.root:
            return ''
        if p.startswith(self.root + '/'):
            return p[len(self.root) + 1:]
        return '//' + p

    def _depth(self):
        return getattr(self._tl, 'd', 0)

    def _enter(self, op, *paths):
        """returns the fault kind to apply to this top-level call (or None);
        None also for nested calls"""
        d = self._depth()
        self._tl.d = d + 1
        if d:
            return None
        rp = tuple(self.rel(p) for p in paths)
        self.trace.append((op,) + rp)
        self.nfault += 1
        kind = self.plan.get(self.nfault)
        if kind is None and (op,) + rp in self._sticky:
            kind, left = self._sticky[(op,) + rp]
            if left <= 1:
                del self._sticky[(op,) + rp]
            else:
                self._sticky[(op,) + rp] = (kind, left - 1)
        elif isinstance(kind, tuple):
            # (kind, r): the same call (same op, same path) also fails the next r-1 times
            kind, r = kind
            if r > 1:
                self._sticky[(op,) + rp] = (kind, r - 1)
        if kind is None:
            return None
        if kind in ('stale', 'stale0') and op not in LIST_OPS:
            kind = 'oserr'
        if kind == 'lie' and op not in STAT_OPS:
            kind = 'oserr'
        if kind in ('partial', 'after') and op in READ_OPS:
            kind = 'oserr'
        self.fired.append((self.nfault, kind, op) + rp)
        return kind

    def _leave(self):
        self._tl.d = self._depth() - 1

    @staticmethod
    def _raise_before(kind, what):
        if kind == 'oserr':
            raise InjectedFault(f'injected: {what}')
        if kind == 'fnf':
            raise InjectedNotFound(f'injected: {what}')

    # ------------------------------------------------------------ stat-like
    def _stat(self, op, path, real, **kw):
        kind = self._enter(op, path)
        try:
            self._raise_before(kind, f'{op} {path}')
            if kind == 'lie':
                if op == 'info':
                    raise InjectedNotFound(f'injected: stat failed for {path}')
                return False
            return real(path, **kw)
        finally:
            self._leave()

    def exists(self, path, **kw):
        return self._stat('exists', path, super().exists, **kw)

    def isfile(self, path):
        return self._stat('isfile', path, super().isfile)

    def isdir(self, path):
        return self._stat('isdir', path, super().isdir)

    def info(self, path, **kw):
        if isinstance(path, os.DirEntry):
            return super().info(path, **kw)
        return self._stat('info', path, super().info, **kw)

    # ------------------------------------------------------------ listings
    def ls(self, path, detail=False, **kw):
        kind = self._enter('ls', path)
        try:
            self._raise_before(kind, f'ls {path}')
            out = super().ls(path, detail=detail, **kw)
            if kind in ('stale', 'stale0') and out:
                key = (lambda e: e['name']) if detail else (lambda e: e)
                out = sorted(out, key=key)
                out = out[1:] if kind == 'stale0' else out[:-1]
            return out
        finally:
            self._leave()

    def find(self, path, maxdepth=None, withdirs=False, detail=False, **kw):
        kind = self._enter('find', path)
        try:
            self._raise_before(kind, f'find {path}')
            out = super().find(path, maxdepth=maxdepth, withdirs=withdirs, detail=detail, **kw)
            if kind in ('stale', 'stale0') and out:
                keys = sorted(out)
                drop = keys[0] if kind == 'stale0' else keys[-1]
                if isinstance(out, dict):
                    out = {k: v for k, v in out.items() if k != drop}
                else:
                    out = [k for k in out if k != drop]
            return out
        finally:
            self._leave()

    # ------------------------------------------------------------ mutations
    def makedirs(self, path, exist_ok=False):
        kind = self._enter('makedirs', path)
        try:
            self._raise_before(kind, f'makedirs {path}')
            if kind == 'partial':
                p = self._strip_protocol(path)
                comps = p.split('/')
                for j in range(2, len(comps) + 1):
                    anc = '/'.join(comps[:j])
                    if not os.path.exists(anc):
                        os.mkdir(anc)
                        break
                raise InjectedFault(f'injected: makedirs {path} interrupted')
            super().makedirs(path, exist_ok=exist_ok)
            if kind == 'after':
                raise InjectedFault(f'injected: makedirs {path} reported failure after the effect')
        finally:
            self._leave()

    mkdirs = makedirs

    def rm(self, path, recursive=False, maxdepth=None):
        kind = self._enter('rm', path)
        try:
            self._raise_before(kind, f'rm {path}')
            if kind == 'partial':
                p = self._strip_protocol(path)
                if os.path.isdir(p):
                    kids = sorted(os.listdir(p))
                    if kids:     # remove the first child only; the directory itself stays
                        k0 = os.path.join(p, kids[0])
                        shutil.rmtree(k0) if os.path.isdir(k0) else os.remove(k0)
                raise InjectedFault(f'injected: rm {path} interrupted')
            super().rm(path, recursive=recursive, maxdepth=maxdepth)
            if kind == 'after':
                raise InjectedFault(f'injected: rm {path} reported failure after the effect')
        finally:
            self._leave()

    def rm_file(self, path):
        kind = self._enter('rm_file', path)
        try:
            self._raise_before(kind, f'rm_file {path}')
            if kind == 'partial':
                raise InjectedFault(f'injected: rm_file {path}')
            super().rm_file(path)
            if kind == 'after':
                raise InjectedFault(f'injected: rm_file {path} after')
        finally:
            self._leave()

    def mv(self, path1, path2, recursive=True, **kw):
        kind = self._enter('mv', path1, path2)
        try:
            self._raise_before(kind, f'mv {path1} {path2}')
            if kind == 'partial':      # rename is atomic on a local filesystem
                raise InjectedFault(f'injected: mv {path1}')
            super().mv(path1, path2, recursive=recursive, **kw)
            if kind == 'after':
                raise InjectedFault(f'injected: mv {path1} reported failure after the effect')
        finally:
            self._leave()

    def move(self, path1, path2, **kw):
        return self.mv(path1, path2, **kw)

    def open(self, path, mode='rb', **kw):
        writing = any(c in mode for c in 'wax+')
        kind = self._enter('open_w' if writing else 'open_r', path)
        try:
            self._raise_before(kind, f'open {path} {mode}')
            f = super().open(path, mode=mode, **kw)
            if writing:
                rp = self.rel(path)
                cb = self.on_write_closed
                f = _WFile(f, kind, (lambda: cb(rp)) if cb else None)
            return f
        finally:
            self._leave()

    def invalidate_cache(self, path=None):
        # not an operation that can fail on any store; recorded, never faulted
        if not self._depth():
            self.trace.append(('invalidate_cache',))
        return super().invalidate_cache(path)


def tree(root, skip=()):
    """{relpath: 'dir' | 'file'} of everything under root (root itself excluded)"""
    out = {}
    root = os.path.realpath(root)
    for d, dirs, files in os.walk(root):
        for n in dirs:
            out[os.path.relpath(os.path.join(d, n), root)] = 'dir'
        for n in files:
            out[os.path.relpath(os.path.join(d, n), root)] = 'file'
    return out


# ---------------------------------------------------------------------------
# real names / trees  ->  terms of coq/Model/FS.v
# ---------------------------------------------------------------------------
import re
import zlib

from . import common as C

_RX = [(re.compile(r'^part\.(0|[1-9]\d*)\.parquet$'), 'NPart'),
       (re.compile(r'^part(0|[1-9]\d*)\.parquet$'), 'NSub'),
       (re.compile(r'^t(0|[1-9]\d*)$'), 'NTmp')]


def set_tmp_prefix(prefix='t'):
    """the leaf name of an external per-partition temp directory is <prefix><n>; it is the
    component that parses to NTmp n.  One prefix is in force at a time (per run), so the
    parser stays injective; the prefix never starts like a part / sub-part name."""
    assert not prefix.startswith('part')
    _RX[2] = (re.compile('^' + re.escape(prefix) + r'(0|[1-9]\d*)$'), 'NTmp')


def name_term(s):
    """the injective parser of Model/FS.v's header comment"""
    for rx, ctor in _RX:
        m = rx.match(s)
        if m:
            return C.Rec(ctor, C.Nat(int(m.group(1))))
    if s == '_metadata':
        return C.Rec('NMeta')
    if s == '_common_metadata':
        return C.Rec('NCommon')
    return C.Rec('NStr', s)


def path_term(rel):
    rel = rel.strip('/')
    return [name_term(c) for c in rel.split('/')] if rel else []


def cells_term(cells):
    return [(C.Nat(i), C.Nat(n)) for i, n in cells]


def opaque_id(data):
    return zlib.crc32(data) & 0x7fffffff


def fs_term(root, classify):
    """every entry under root as (path, node); classify(relpath, abspath) -> content term"""
    out = []
    root = os.path.realpath(root)
    for d, dirs, files in os.walk(root):
        dirs.sort()
        for n in sorted(dirs):
            rp = os.path.relpath(os.path.join(d, n), root)
            out.append((path_term(rp), C.Rec('Dir')))
        for n in sorted(files):
            ap = os.path.join(d, n)
            rp = os.path.relpath(ap, root)
            out.append((path_term(rp), C.Rec('File', classify(rp, ap))))
    return out


def classify_opaque(rp, ap):
    data = open(ap, 'rb').read()
    m = re.match(rb'^opaque:(\d+)$', data)
    if m:
        return C.Rec('COpaque', int(m.group(1)))
    if not data:
        return C.Rec('CPartial')
    return C.Rec('COpaque', opaque_id(data))
