#!/usr/bin/env python3
"""Regenerate the generated tables of DESIGN.md (between the AUTOGEN markers) from evidence/,
manifest.d/, seeded/RESULTS.json and KNOWN_FINDINGS.txt."""
import json, os, glob, re
HERE = os.path.dirname(os.path.dirname(os.path.abspath(__file__)))
props = [json.loads(l) for l in open(os.path.join(HERE, 'properties.jsonl'))]
out = []
out.append('| id | theorems (Print Assumptions accepted / stated) | axioms | quick: cases (distinct non-trivial) | quick wall s | claimed strength |')
out.append('|----|------|------|------|------|------|')
for p in props:
    pid = p['id']
    ev = os.path.join(HERE, 'evidence', pid + '.json')
    mf = os.path.join(HERE, 'manifest.d', pid + '.json')
    if not (os.path.exists(ev) and os.path.exists(mf)):
        out.append(f'| {pid} | not built | | | | |'); continue
    e = json.load(open(ev)); c = e['coverage']; m = json.load(open(mf))
    full = sorted({a for t in c.get('theorems', []) for a in t.get('axioms', [])})
    logical = sorted({a.split('.')[-1] for a in full
                      if a.split('.')[-2:-1] not in (['PrimFloat'], ['PrimInt63'], ['FloatAxioms'], ['Uint63'])})
    nprim = len([a for a in full if a.split('.')[-2:-1] in (['PrimFloat'], ['PrimInt63'])])
    nspec = len([a for a in full if a.split('.')[-2:-1] in (['FloatAxioms'], ['Uint63'])])
    axs = list(logical)
    if nprim or nspec:
        axs.append(f'binary64/int63: {nprim} kernel primitives, {nspec} FloatAxioms/Uint63 specifications (§6)')
    nclosed = len([t for t in c.get('theorems', []) if not t.get('axioms')])
    axs.append(f'[{nclosed} of {len(c.get("theorems", []))} theorems closed]') if axs else None
    txt = m['level_claimed']['text']
    strength = 'partial' if re.search(r'\bpartial\b', txt, re.I) else 'full (model level)'
    out.append(f"| {pid} | {c['discharged']} / {c['obligations']} | {', '.join(axs) or 'none (closed)'} | "
               f"{c.get('evaluations')} ({c.get('distinct_nontrivial')}) | {e['wall_s']:.0f} | {strength} |")
tab1 = '\n'.join(out)

res = {}
rp = os.path.join(HERE, 'seeded', 'RESULTS.json')
if os.path.exists(rp):
    res = json.load(open(rp))
out = ['| seeded change | breaks | what it needs to manifest | caught by |', '|---|---|---|---|']
for d in sorted(glob.glob(os.path.join(HERE, 'seeded', 'C*_*'))):
    name = os.path.basename(d)
    try:
        m = json.load(open(os.path.join(d, 'meta.json')))
    except Exception:
        m = {}
    title = (m.get('title') or '').replace('|', '/')[:110]
    needs = str(m.get('what_it_needs_to_manifest') or '').replace('|', '/').replace('\n', ' ')[:160]
    r = res.get(name, {})
    caught = [k for k, v in r.items() if v.get('caught')]
    missed = [k for k, v in r.items() if not v.get('caught')]
    cb = ', '.join(f'./check {k}' for k in caught) or ('**missed** by ' + ', '.join(missed) if missed else 'not run yet')
    if str(m.get('status', '')).startswith('obsolete'):
        cb = 'obsolete: ' + str(m['status'])[len('obsolete:'):].strip()[:120]
    out.append(f"| {name} — {title} | {name.split('_')[0]} | {needs} | {cb} |")
tab2 = '\n'.join(out)

p = os.path.join(HERE, 'DESIGN.md')
s = open(p).read()
def put(s, tag, body):
    a, b = f'<!-- AUTOGEN:{tag}:BEGIN -->', f'<!-- AUTOGEN:{tag}:END -->'
    if a not in s:
        return s + f'\n{a}\n{body}\n{b}\n'
    i, j = s.index(a) + len(a), s.index(b)
    return s[:i] + '\n' + body + '\n' + s[j:]
s = put(s, 'STATUS', tab1)
s = put(s, 'SEEDS', tab2)
open(p, 'w').write(s)
print(tab1)
