"""Read a file of a commit straight from /repo/.git (pure Python, read-only: no git process
is ever started in the repository).  Used by tools/impl_coverage.py to translate the
`anchors.mechanism[].where` line ranges of properties.jsonl - written against the commit the
task started from - to the lines of today's working tree (later `fix:` commits shifted them).

    base_commit(repo)              -> hex sha the repository was at when it was handed over
    file_at(repo, sha, 'a/b.py')   -> bytes | None
"""
import os
import struct
import zlib

_TYPES = {1: 'commit', 2: 'tree', 3: 'blob', 4: 'tag'}


class _Pack:
    def __init__(self, idx_path):
        self.pack_path = idx_path[:-4] + '.pack'
        d = open(idx_path, 'rb').read()
        if d[:8] != b'\xfftOc\x00\x00\x00\x02':
            raise ValueError('pack index version 2 expected')
        fan = struct.unpack('>256I', d[8:8 + 1024])
        n = fan[255]
        o = 8 + 1024
        self.shas = [d[o + 20 * i:o + 20 * i + 20] for i in range(n)]
        o += 20 * n + 4 * n
        offs = struct.unpack(f'>{n}I', d[o:o + 4 * n])
        o += 4 * n
        self.offsets = {}
        for sha, off in zip(self.shas, offs):
            if off & 0x80000000:
                k = off & 0x7fffffff
                off = struct.unpack('>Q', d[o + 8 * k:o + 8 * k + 8])[0]
            self.offsets[sha] = off
        self._data = None

    @property
    def data(self):
        if self._data is None:
            self._data = open(self.pack_path, 'rb').read()
        return self._data

    def at(self, off, store):
        d = self.data
        p = off
        c = d[p]
        p += 1
        typ = (c >> 4) & 7
        while c & 0x80:          # size varint (unused: zlib knows where the stream ends)
            c = d[p]
            p += 1
        if typ in _TYPES:
            return _TYPES[typ], zlib.decompressobj().decompress(d[p:])
        if typ == 6:             # OFS_DELTA
            c = d[p]
            p += 1
            rel = c & 0x7f
            while c & 0x80:
                c = d[p]
                p += 1
                rel = ((rel + 1) << 7) | (c & 0x7f)
            btyp, base = self.at(off - rel, store)
        elif typ == 7:           # REF_DELTA
            btyp, base = store.get(d[p:p + 20])
            p += 20
        else:
            raise ValueError(f'pack entry type {typ}')
        return btyp, _apply_delta(base, zlib.decompressobj().decompress(d[p:]))


def _apply_delta(base, delta):
    p = 0

    def varint():
        nonlocal p
        r = s = 0
        while True:
            c = delta[p]
            p += 1
            r |= (c & 0x7f) << s
            s += 7
            if not c & 0x80:
                return r
    varint()
    varint()
    out = bytearray()
    while p < len(delta):
        c = delta[p]
        p += 1
        if c & 0x80:
            off = size = 0
            for i in range(4):
                if c & (1 << i):
                    off |= delta[p] << (8 * i)
                    p += 1
            for i in range(3):
                if c & (0x10 << i):
                    size |= delta[p] << (8 * i)
                    p += 1
            out += base[off:off + (size or 0x10000)]
        else:
            out += delta[p:p + c]
            p += c
    return bytes(out)


class Store:
    def __init__(self, repo):
        self.obj = os.path.join(repo, '.git', 'objects')
        self.packs = []
        pd = os.path.join(self.obj, 'pack')
        if os.path.isdir(pd):
            for f in sorted(os.listdir(pd)):
                if f.endswith('.idx'):
                    try:
                        self.packs.append(_Pack(os.path.join(pd, f)))
                    except (ValueError, OSError):
                        pass

    def get(self, sha):
        """sha: 20 raw bytes -> (type, content)"""
        h = sha.hex()
        p = os.path.join(self.obj, h[:2], h[2:])
        if os.path.exists(p):
            raw = zlib.decompress(open(p, 'rb').read())
            head, _, body = raw.partition(b'\x00')
            return head.split()[0].decode(), body
        for pk in self.packs:
            if sha in pk.offsets:
                return pk.at(pk.offsets[sha], self)
        raise KeyError(h)


def base_commit(repo):
    """the commit the repository was at before the first local commit (old side of the first HEAD
    reflog entry); falls back to packed-refs, then to HEAD"""
    g = os.path.join(repo, '.git')
    try:
        first = open(os.path.join(g, 'logs', 'HEAD')).readline().split()
        if len(first) >= 2 and set(first[0]) != {'0'}:
            return first[0]
        if len(first) >= 2:
            return first[1]
    except OSError:
        pass
    try:
        for line in open(os.path.join(g, 'packed-refs')):
            if line.strip().endswith('refs/heads/main') or line.strip().endswith('refs/heads/master'):
                return line.split()[0]
    except OSError:
        pass
    return None


def file_at(repo, commit_hex, relpath, _stores={}):
    st = _stores.get(repo)
    if st is None:
        st = _stores[repo] = Store(repo)
    typ, body = st.get(bytes.fromhex(commit_hex))
    if typ != 'commit':
        return None
    tree = bytes.fromhex(body.split(b'\n', 1)[0].split()[1].decode())
    parts = relpath.strip('/').split('/')
    for k, name in enumerate(parts):
        typ, body = st.get(tree)
        p, found = 0, None
        while p < len(body):
            sp = body.index(b' ', p)
            nul = body.index(b'\x00', sp)
            if body[sp + 1:nul].decode('utf8', 'replace') == name:
                found = body[nul + 1:nul + 21]
            p = nul + 21
        if found is None:
            return None
        tree = found
    typ, body = st.get(tree)
    return body if typ == 'blob' else None
