#!/bin/bash
# tools/try_seed.sh <seed-dir> <PID> [check args...]
# Applies <seed-dir>/patch.diff to a scratch copy of /repo's package (never to /repo itself while
# builders are reading it), runs ./check PID against that copy, removes the copy.
set -u
seed=$1; pid=$2; shift 2
tmp=$(mktemp -d /tmp/seedrun_XXXX)
cp -r /repo/spatialpandas "$tmp/"
( cd "$tmp" && patch -p1 -s < "$seed/patch.diff" ) || { echo "PATCH FAILED"; rm -rf "$tmp"; exit 2; }
cd /verif && VERIF_OUT_DIR="$tmp/out" VERIF_REPO="$tmp" ./check "$pid" --no-proof "$@" 2>&1 | tail -8
rc=${PIPESTATUS[0]}
rm -rf "$tmp"
exit $rc
