#!/usr/bin/env python3
"""round-2 prompt: as round 1 plus a list of changes already made by earlier testers (to avoid repeats)"""
import json, sys, os, glob, subprocess
pid = sys.argv[1]
rnd = int(sys.argv[2]) if len(sys.argv) > 2 else 2
A, B = 2 * rnd - 1, 2 * rnd
base = subprocess.run(['/verif/tools/seed_prompt.py', pid], capture_output=True, text=True).stdout
base = base.replace(f'_seed/{pid}_{{i}}', f'_seed/{pid}_{{i}}').replace('i ∈ {1,2}', 'i ∈ {%d,%d}' % (A, B))
prev = []
for d in sorted(glob.glob(f'/verif/seeded/C*_*')):
    try:
        m = json.load(open(os.path.join(d, 'meta.json')))
    except Exception:
        continue
    t = m.get('title') or ''
    f = m.get('files_touched')
    prev.append(f"- [{os.path.basename(d)}] {t} (files: {f})")
avoid = "\n".join(prev)
extra = ""
if rnd >= 4:
    extra = ("ROUND %d FOCUS. Three earlier rounds concentrated on comparison operators, thresholds, caches and "
             "aliasing. This time look elsewhere: (1) NUMERICS on inputs that are not small integers - reordered or "
             "'simplified' floating-point expressions, a float32 or integer intermediate, a different rounding / "
             "truncation, loss of precision for large magnitudes or tiny extents, -0.0 / subnormal / inf handling - "
             "where the answer changes only for non-representable decimals, near-ties or extreme magnitudes; (2) the "
             "GLUE between components - wrappers on GeoSeries / GeoDataFrame / Dask collections, argument defaults, "
             "keyword pass-through, dtype / subtype conversion (int16, int32, float32), index and column-name handling, "
             "pickling / copying / concatenation of derived objects; (3) behaviour that depends on HISTORY - what was "
             "called before on the same object, in the same process, on the same path; (4) error paths that now "
             "swallow or mis-handle a condition and return a plausible wrong answer instead of raising. Avoid anything "
             "that a single ordinary call on a small integer-valued input would expose. Whatever you choose, the demonstration must remain a violation of the property AS STATED above, on inputs inside its quantifier (read the QUANTIFIED OVER text carefully: if it restricts inputs to exactly representable values, your failing input must respect that).\n" % rnd)
print(base)
print(f"""
ADDITIONAL RULES FOR THIS ROUND. Earlier testers already produced the changes listed below (for this and for neighbouring properties). Do NOT repeat any of them or a close variant (same function and same idea); look for breakages in OTHER mechanisms, other entry points, other input classes or other operation sequences — e.g. wrappers and glue code rather than the core kernel, rarely-used forms (scalar form, `inds` form, GeoSeries/GeoDataFrame/Dask wrappers), boundary sizes, dtype handling, caching, argument handling, ordering. Name your two changes {pid}_{A} and {pid}_{B} (directories `_seed/{pid}_{A}`, `_seed/{pid}_{B}`). In this round prefer changes of the kinds that are hardest to notice: two cooperating sites that each look fine alone, a multi-step sequence of operations (cache warm-up, derive, mutate, re-use), behaviour that differs only at a size/count threshold (page size, >= 11 partitions, >= 2^16 elements, p at a dtype boundary), a fault or interleaving at one particular point, state shared between objects (cached attributes, shared buffers, metas), or argument handling (types, aliasing, mutation of the caller's objects).
{extra}
Already done:
{avoid}
""")
