#!/venv/bin/python
"""Run the pinned suite (guard variable unset) and check that every test listed
as stable_pass in /root/.vp/BASELINE.json still passes.  Exit 0 iff so."""
import json, os, subprocess, sys, tempfile, xml.etree.ElementTree as ET

base = json.load(open('/root/.vp/BASELINE.json'))
env = dict(os.environ)
env.pop('HOLOVIZ_SPATIALPANDAS_VERIF', None)
with tempfile.TemporaryDirectory() as d:
    xml = os.path.join(d, 'junit.xml')
    cmd = base['cmd'].replace('<file>', xml)
    subprocess.run(cmd, shell=True, env=env, stdout=subprocess.DEVNULL, stderr=subprocess.DEVNULL)
    passed = set()
    for tc in ET.parse(xml).getroot().iter('testcase'):
        bad = any(c.tag in ('failure', 'error', 'skipped') for c in tc)
        if not bad:
            passed.add(f"{tc.get('classname')}::{tc.get('name')}")
missing = [t for t in base['stable_pass'] if t not in passed]
print(f"stable_pass={len(base['stable_pass'])} passed_now={len(passed)} regressions={len(missing)}")
for t in missing[:20]:
    print("REGRESSION", t)
sys.exit(1 if missing else 0)
