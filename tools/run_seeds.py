#!/usr/bin/env python3
"""Run every confirmed seeded change under /verif/seeded against the check of its property (on a
scratch copy of the package, never on /repo) and write seeded/RESULTS.json + a markdown table."""
import json, os, subprocess, sys, glob, time, concurrent.futures as cf
HERE = os.path.dirname(os.path.dirname(os.path.abspath(__file__)))
args = sys.argv[1:]
NJ = 1
if args and args[0].startswith('-j'):
    NJ = int(args[0][2:] or 2)
    args = args[1:]
only = set(args)
seeds = sorted(d for d in glob.glob(os.path.join(HERE, 'seeded', 'C*_*')) if os.path.isdir(d))
res_path = os.path.join(HERE, 'seeded', 'RESULTS.json')
results = json.load(open(res_path)) if os.path.exists(res_path) else {}

def run(seed, pid):
    t = time.time()
    p = subprocess.run([os.path.join(HERE, 'tools', 'try_seed.sh'), seed, pid], capture_output=True, text=True)
    out = p.stdout + p.stderr
    viol = [l for l in out.splitlines() if l.startswith('VIOLATION')]
    return {'check': pid, 'caught': bool(viol), 'rc': p.returncode, 'wall_s': round(time.time() - t),
            'violation_lines': viol[:3], 'tail': out.splitlines()[-3:]}

jobs = []
for s in seeds:
    name = os.path.basename(s)
    pid = name.split('_')[0]
    if only and name not in only and pid not in only:
        continue
    extra = []
    meta = os.path.join(s, 'meta.json')
    jobs.append((name, s, pid))
# sequential by default (each check already uses all cores); -jN runs N seeds at a time
import threading
lock = threading.Lock()
def one(job):
    name, s, pid = job
    r = run(s, pid)
    with lock:
        results.setdefault(name, {})[pid] = r
        print(name, pid, 'CAUGHT' if r['caught'] else 'missed', r['wall_s'], 's', flush=True)
        json.dump(results, open(res_path, 'w'), indent=1)
with cf.ThreadPoolExecutor(max_workers=NJ) as ex:
    list(ex.map(one, jobs))
