"""Line coverage of the implementation under /repo/spatialpandas during one ./check run.

Loaded by ./check (and by the sitecustomize that tools/impl_coverage.py puts on PYTHONPATH for
helper processes that do not re-enter ./check) only when env VERIF_LINECOV=<path> is set.

A Python 3.12 `sys.monitoring` tool receives LINE events; the callback records
(filename, lineno) for files under <repo>/spatialpandas/ and returns DISABLE, so every
location costs one callback in the whole run.  The hit table is written as JSON
{file: sorted hit lines}:
  * by the process that first installed the monitor (the ./check process): to <path>
  * by every other process (spawned children, forked workers):           to <path>.<pid>
at interpreter exit (atexit), on the watchdog exit of ./check (explicit flush), and by a daemon
thread whenever new lines have been hit (so a worker that is killed still leaves its table).
Numba-compiled kernels execute no Python lines: the coverage run sets NUMBA_DISABLE_JIT=1.
"""
import atexit
import json
import os
import sys
import threading

_S = {'installed': False}


def _target():
    path = os.environ['VERIF_LINECOV']
    return path if os.environ.get('VERIF_LINECOV_OWNER') == str(os.getpid()) else f'{path}.{os.getpid()}'


def flush():
    if not _S['installed']:
        return
    with _S['lock']:
        hits = list(_S['hits'])          # atomic snapshot under the GIL
        n = len(hits)
        table = {}
        for fn, ln in hits:
            table.setdefault(fn, []).append(ln)
        for fn in table:
            table[fn].sort()
        out = _target()
        tmp = f'{out}.tmp{os.getpid()}'
        try:
            with open(tmp, 'w') as f:
                json.dump(table, f)
            os.replace(tmp, out)
            _S['flushed'] = n
        except OSError:
            pass


def _flusher(period):
    import time
    me = os.getpid()
    while os.getpid() == me:
        time.sleep(period)
        if len(_S['hits']) != _S['flushed']:
            flush()


def _start_flusher():
    t = threading.Thread(target=_flusher, args=(0.5,), name='verif-linecov', daemon=True)
    t.start()


def _after_fork_child():
    # a forked worker keeps the monitor and the inherited table, writes to its own file
    _S['lock'] = threading.Lock()
    _S['flushed'] = -1
    try:
        _start_flusher()
    except RuntimeError:
        pass


def install(repo=None):
    if _S['installed'] or getattr(sys, '_verif_linecov', None):
        return
    repo = repo or os.environ.get('VERIF_REPO', '/repo')
    prefix = os.path.join(os.path.realpath(repo), 'spatialpandas') + os.sep
    prefix2 = os.path.join(repo, 'spatialpandas') + os.sep
    os.environ.setdefault('VERIF_LINECOV_OWNER', str(os.getpid()))
    mon = sys.monitoring
    tool = None
    for cand in (mon.COVERAGE_ID, 3, 4, mon.PROFILER_ID):
        if mon.get_tool(cand) is None:
            tool = cand
            break
    if tool is None:
        return
    hits = set()
    DISABLE = mon.DISABLE
    add = hits.add

    def on_line(code, lineno):
        fn = code.co_filename
        if fn.startswith(prefix) or fn.startswith(prefix2):
            add((fn, lineno))
        return DISABLE

    _S.update(installed=True, hits=hits, lock=threading.Lock(), flushed=-1, tool=tool)
    sys._verif_linecov = True
    sys._verif_linecov_flush = flush
    mon.use_tool_id(tool, 'verif-linecov')
    mon.register_callback(tool, mon.events.LINE, on_line)
    mon.set_events(tool, mon.events.LINE)
    atexit.register(flush)
    os.register_at_fork(after_in_child=_after_fork_child)
    _start_flusher()
