#!/usr/bin/env python3
"""Assemble MANIFEST.json from manifest.d/Cxx.json fragments.  A property with no
fragment is listed under not_applicable with the reason recorded in
manifest.d/_unclaimed.json (or a default)."""
import json, os, glob
HERE = os.path.dirname(os.path.dirname(os.path.abspath(__file__)))
props = [json.loads(l)['id'] for l in open(os.path.join(HERE, 'properties.jsonl'))]
unclaimed = {}
p = os.path.join(HERE, 'manifest.d', '_unclaimed.json')
if os.path.exists(p):
    unclaimed = json.load(open(p))
checks, na = [], []
for pid in props:
    f = os.path.join(HERE, 'manifest.d', pid + '.json')
    if os.path.exists(f):
        c = json.load(open(f))
        c.setdefault('property_id', pid)
        c.setdefault('quick_cmd', f'./check {pid} --tier quick')
        c.setdefault('thorough_cmd', f'./check {pid} --tier thorough')
        c.setdefault('evidence_file', f'evidence/{pid}.json')
        c.setdefault('replay_cmd_template', f'./check {pid} --replay {{path}}')
        c.setdefault('engine', 'coq-proof+correspondence')
        checks.append(c)
    else:
        na.append({'property_id': pid, 'reason': unclaimed.get(
            pid, 'not claimed yet: model, theorems and correspondence check for this property '
                 'are not built; the technique (Coq proof + correspondence) does apply, see DESIGN.md')})
m = {
    'version': 1,
    'setup_cmd': './setup.sh',
    'hooks': {
        'guard': 'HOLOVIZ_SPATIALPANDAS_VERIF',
        'enable': 'none needed: the checks drive the public API of the working tree (filesystem=, '
                  '_retry_args=, scheduler=); the variable is reserved and set by ./check',
        'baseline_off_cmd': 'env -u HOLOVIZ_SPATIALPANDAS_VERIF /verif/tools/baseline_check.py',
        'source_commits': [],
        'add_only': True,
    },
    'engines': [{
        'name': 'coq-proof+correspondence', 'path': 'check',
        'serves_properties': [c['property_id'] for c in checks],
        'kind_free_text': 'Coq 8.16.1 theorems about a hand-written Gallina model (coq/), tied to '
                          '/repo on every run by a correspondence check that evaluates the model '
                          'inside the Coq kernel (vm_compute) on the inputs the real library ran',
    }],
    'checks': checks,
    'not_applicable': na,
    'notes': 'See DESIGN.md and CONVENTIONS.md. KNOWN_FINDINGS.txt lists recorded (known:) and repaired (fixed:) defects; coverage/SUMMARY.md has the measured implementation line coverage of the anchored mechanisms; seeded/ holds 160 confirmed breaking changes and seeded/RESULTS.json which check catches each.',
}
json.dump(m, open(os.path.join(HERE, 'MANIFEST.json'), 'w'), indent=1)
print(f'{len(checks)} claimed, {len(na)} unclaimed')
