#!/venv/bin/python
"""pin the AST fingerprint of every property's anchored source files (run after /repo changes)"""
import importlib, json, os, sys, glob
HERE = os.path.dirname(os.path.dirname(os.path.abspath(__file__)))
sys.path.insert(0, HERE); sys.path.insert(0, '/repo')
from harness import common
out = {}
for f in sorted(glob.glob(os.path.join(HERE, 'harness', 'c[0-9][0-9].py'))):
    pid = os.path.basename(f)[:-3].upper()
    try:
        mod = importlib.import_module('harness.' + pid.lower())
        files = getattr(mod, 'ANCHOR_FILES', [])
        if files:
            out[pid] = common.source_fingerprint(files)
    except Exception as e:
        print('skip', pid, e)
json.dump(out, open(os.path.join(HERE, 'fingerprints.json'), 'w'), indent=1, sort_keys=True)
print(out)
