#!/venv/bin/python
"""tools/impl_coverage.py [Cxx ...] [--deadline SECONDS] [--jobs N]

How much of the anchored implementation code do the compared cases of each property execute?
(DESIGN.md §2, "how strongly is the model tied? - measured, not asserted".)

For every property the correspondence run is repeated in a scratch output directory, against a
private snapshot of /repo/spatialpandas (fix commits land in /repo while this runs; executed and
executable lines must refer to the same text)

    VERIF_REPO=<scratch>/repo VERIF_LINECOV=<scratch>/cov.json NUMBA_DISABLE_JIT=1 VERIF_OUT_DIR=<scratch>/out
    VERIF_DEADLINE=<deadline> ./check Cxx --no-proof

(./check installs the sys.monitoring LINE recorder of tools/linecov.py; helper processes that
do not re-enter ./check get it from a sitecustomize put on PYTHONPATH; the numba kernels run
as plain Python so that their lines are seen).  The executed lines are intersected with the
executable lines (co_lines of every nested code object) of each `anchors.mechanism[].where`
range of properties.jsonl (line numbers of the commit the work started from, translated to the
measured text by a line diff against that commit, read from /repo/.git by tools/gitbase.py).  Results: coverage/Cxx.json and coverage/SUMMARY.md.
evidence/ and replays/ of the real tree are never written (VERIF_OUT_DIR), the scratch
directory is removed.

A run that a harness cannot complete without the JIT (crash under NUMBA_DISABLE_JIT=1) is
recorded as "jit_required": true and repeated WITH the JIT; the lines of both runs are merged
(the second run only adds the Python-level, non-jitted anchors).
"""
import argparse
import concurrent.futures as cf
import difflib
import glob
import json
import os
import re
import shutil
import signal
import subprocess
import sys
import tempfile
import threading
import time

VERIF = os.path.dirname(os.path.dirname(os.path.abspath(__file__)))
REPO = os.environ.get('VERIF_REPO', '/repo')
# Other work commits fixes to REPO while this tool runs: every measurement runs against (and is
# analysed on) a private snapshot of REPO/spatialpandas, so executed and executable lines always
# refer to the same text.  root() = the snapshot of the current worker thread (REPO outside a run).
_TL = threading.local()


def root():
    return getattr(_TL, 'root', REPO)
COVDIR = os.path.join(VERIF, 'coverage')
sys.path.insert(0, os.path.dirname(os.path.abspath(__file__)))
import gitbase  # noqa: E402  (pure-Python, read-only access to /repo/.git)

SITECUSTOMIZE = '''\
import os, sys
if os.environ.get('VERIF_LINECOV') and 'verif_linecov' not in sys.modules:
    try:
        import importlib.util as _ilu
        _spec = _ilu.spec_from_file_location('verif_linecov', %r)
        sys.modules['verif_linecov'] = _ilu.module_from_spec(_spec)
        _spec.loader.exec_module(sys.modules['verif_linecov'])
        sys.modules['verif_linecov'].install()
    except Exception:
        sys.modules.pop('verif_linecov', None)
''' % os.path.join(VERIF, 'tools', 'linecov.py')


# ----------------------------------------------------------------------
# anchors
# ----------------------------------------------------------------------
def load_properties():
    out = {}
    for line in open(os.path.join(VERIF, 'properties.jsonl')):
        line = line.strip()
        if line:
            d = json.loads(line)
            out[d['id']] = d
    return out


_WHERE = re.compile(r'([\w/.\-]+\.py):\s*(\d+(?:-\d+)?(?:\s*,\s*\d+(?:-\d+)?)*)')


def parse_where(where, anchor_files):
    """'a/b.py:1-5,9-12, c.py:3-4' -> [(repo-relative file, [(1,5),(9,12)]), ...]
    a bare file name is resolved next to the previous file, then among the anchor files"""
    out, prev = [], None
    for m in _WHERE.finditer(where):
        name, rng = m.group(1), m.group(2)
        cands = [name]
        if prev:
            cands.append(os.path.join(os.path.dirname(prev), name))
        cands += [f for f in anchor_files if f.endswith('/' + name)]
        cands += [os.path.relpath(p, root()) for p in
                  glob.glob(os.path.join(root(), 'spatialpandas', '**', os.path.basename(name)), recursive=True)]
        f = next((c for c in cands if os.path.isfile(os.path.join(root(), c))), None)
        if f is None:
            out.append((name, None))
            continue
        prev = f
        ranges = []
        for part in rng.split(','):
            part = part.strip()
            a, _, b = part.partition('-')
            ranges.append((int(a), int(b or a)))
        out.append((os.path.normpath(f), ranges))
    return out


_EXEC_CACHE = {}


def executable_lines(relfile):
    """line numbers that carry bytecode, over the module and all nested code objects"""
    key = (root(), relfile)
    if key not in _EXEC_CACHE:
        path = os.path.join(root(), relfile)
        src = open(path).read()
        lines = set()
        try:
            todo = [compile(src, path, 'exec')]
        except SyntaxError:
            todo = []
        while todo:
            co = todo.pop()
            for _, _, ln in co.co_lines():
                if ln:
                    lines.add(ln)
            todo += [c for c in co.co_consts if hasattr(c, 'co_lines')]
        _EXEC_CACHE[key] = (lines, src.splitlines())
    return _EXEC_CACHE[key]


def file_sha1(relfile):
    import hashlib
    try:
        return hashlib.sha1(open(os.path.join(root(), relfile), 'rb').read()).hexdigest()
    except OSError:
        return None


def repo_head():
    """HEAD of REPO read from the files (no git process)"""
    g = os.path.join(REPO, '.git')
    try:
        h = open(os.path.join(g, 'HEAD')).read().strip()
        if h.startswith('ref:'):
            ref = h.split(None, 1)[1]
            p = os.path.join(g, ref)
            if os.path.exists(p):
                return open(p).read().strip()
            for line in open(os.path.join(g, 'packed-refs')):
                if line.strip().endswith(' ' + ref):
                    return line.split()[0]
        return h
    except OSError:
        return None


def runs_of(lines):
    """[3,4,5,9] -> ['3-5', '9']"""
    out, lines = [], sorted(lines)
    i = 0
    while i < len(lines):
        j = i
        while j + 1 < len(lines) and lines[j + 1] == lines[j] + 1:
            j += 1
        out.append(str(lines[i]) if i == j else f'{lines[i]}-{lines[j]}')
        i = j + 1
    return out


_MAP_CACHE = {}
BASE = os.environ.get('VERIF_ANCHOR_BASE') or gitbase.base_commit(REPO)


def _opcodes(relfile):
    """difflib opcodes base-commit text -> working-tree text (None: file unchanged / no base)"""
    key = (root(), relfile)
    if key not in _MAP_CACHE:
        ops = None
        try:
            old = gitbase.file_at(REPO, BASE, relfile) if BASE else None
        except Exception:   # noqa: BLE001  (unreadable object store: ranges are used as they are)
            old = None
        if old is not None:
            a = old.decode('utf8', 'replace').splitlines()
            b = open(os.path.join(root(), relfile), errors='replace').read().splitlines()
            if a != b:
                ops = difflib.SequenceMatcher(None, a, b, autojunk=False).get_opcodes()
        _MAP_CACHE[key] = ops
    return _MAP_CACHE[key]


def map_ranges(relfile, ranges):
    """The `where` ranges are line numbers of the commit the task started from (BASE); the
    working tree has since received `fix:` commits.  Returns (set of working-tree lines the
    ranges denote today, True iff the text inside them changed).  Lines inserted strictly inside
    a range and replacements of lines of a range belong to it."""
    ops = _opcodes(relfile)
    if ops is None:
        return {ln for a, b in ranges for ln in range(a, b + 1)}, False
    out, changed = set(), False
    for a, b in ranges:
        for tag, i1, i2, j1, j2 in ops:          # base lines i1+1..i2, current lines j1+1..j2
            if tag == 'equal':
                lo, hi = max(a, i1 + 1), min(b, i2)
                out.update(range(lo + (j1 - i1), hi + (j1 - i1) + 1))
            elif tag == 'insert':
                if a <= i1 and i1 + 1 <= b:       # between two lines of the range
                    out.update(range(j1 + 1, j2 + 1))
                    changed = True
            elif max(a, i1 + 1) <= min(b, i2):    # replace / delete touching the range
                out.update(range(j1 + 1, j2 + 1))
                changed = True
    return out, changed


# ----------------------------------------------------------------------
# one coverage run
# ----------------------------------------------------------------------
def one_run(pid, deadline, scratch, tag, jit_disabled, cpus=None):
    cov = os.path.join(scratch, f'cov_{tag}.json')
    out = os.path.join(scratch, f'out_{tag}')
    site = os.path.join(scratch, 'site')
    os.makedirs(site, exist_ok=True)
    with open(os.path.join(site, 'sitecustomize.py'), 'w') as f:
        f.write(SITECUSTOMIZE)
    env = dict(os.environ)
    for k in ('VERIF_LINECOV_OWNER', 'NUMBA_DISABLE_JIT', 'VERIF_TIER'):
        env.pop(k, None)
    env.update(VERIF_LINECOV=cov, VERIF_OUT_DIR=out, VERIF_DEADLINE=str(deadline), VERIF_REPO=root(),
               PYTHONPATH=site + (os.pathsep + env['PYTHONPATH'] if env.get('PYTHONPATH') else ''))
    if jit_disabled:
        env['NUMBA_DISABLE_JIT'] = '1'
    cmd = [os.path.join(VERIF, 'check'), pid, '--no-proof']
    if cpus:
        cmd = ['taskset', '-c', ','.join(map(str, cpus))] + cmd
    log = os.path.join(scratch, f'log_{tag}.txt')
    t0 = time.time()
    killed = False
    with open(log, 'w') as lf:
        p = subprocess.Popen(cmd, cwd=VERIF, env=env, stdout=lf, stderr=subprocess.STDOUT,
                             start_new_session=True)
        try:
            rc = p.wait(timeout=deadline + 600)
        except subprocess.TimeoutExpired:
            killed = True
            rc = None
        # helper processes of a run that was cut short (or forked workers) must not linger
        for sig in (signal.SIGTERM, signal.SIGKILL):
            try:
                os.killpg(p.pid, sig)
            except (ProcessLookupError, PermissionError):
                break
            time.sleep(1.5)
        if rc is None:
            rc = p.wait()
    wall = time.time() - t0
    text = open(log, errors='replace').read()
    hits = {}
    nfiles = 0
    for f in [cov] + sorted(glob.glob(cov + '.*')):
        if '.tmp' in os.path.basename(f)[len(os.path.basename(cov)):] or not os.path.isfile(f):
            continue
        try:
            d = json.load(open(f))
        except Exception:
            continue
        nfiles += 1
        for fn, lns in d.items():
            hits.setdefault(os.path.realpath(fn), set()).update(lns)
    cut = ('did not finish within' in text) or killed
    crashed = 'correspondence harness crashed' in text
    model_unavailable = 'model could not be evaluated' in text
    summary = [ln for ln in text.splitlines() if ln.startswith(pid + ':')]
    viol = [ln.strip() for ln in text.splitlines() if ln.startswith('VIOLATION') or ln.startswith('  what:')
            or ln.startswith('KNOWN-FINDING')]
    # evidence of the scratch run: how many cases were compared
    evals = None
    try:
        ev = json.load(open(os.path.join(out, 'evidence', pid + '.json')))
        evals = ev['coverage'].get('evaluations')
    except Exception:
        pass
    crash_text = ''
    if crashed:
        i = text.find('correspondence harness crashed')
        crash_text = text[i:i + 3500]
    return {
        'tag': tag, 'jit_disabled': jit_disabled, 'exit_code': rc, 'wall_s': round(wall, 1),
        'finished': bool(summary) and not cut and not crashed and not model_unavailable,
        'cut_by_deadline': cut, 'harness_crashed': crashed, 'model_unavailable': model_unavailable,
        'cases_compared': evals, 'summary_line': summary[-1] if summary else None,
        'reported': [v[:400] for v in viol[:12]], 'crash': crash_text[-1800:],
        'linecov_files_merged': nfiles,
    }, hits


def measure(prop, deadline, cpus=None, keep=False):
    pid = prop['id']
    scratch = tempfile.mkdtemp(prefix=f'sp_implcov_{pid}_')
    t0 = time.time()
    try:
        snap = os.path.join(scratch, 'repo')
        shutil.copytree(os.path.join(REPO, 'spatialpandas'), os.path.join(snap, 'spatialpandas'),
                        ignore=shutil.ignore_patterns('__pycache__'))
        _TL.root = snap
        runs = []
        r, hits = one_run(pid, deadline, scratch, 'nojit', True, cpus)
        runs.append(r)
        jit_required = False
        if r['harness_crashed'] or (not r['summary_line'] and not r['cut_by_deadline']):
            # the harness itself needs compiled kernels: repeat with the JIT and merge
            jit_required = True
            r2, hits2 = one_run(pid, deadline, scratch, 'jit', False, cpus)
            runs.append(r2)
            for fn, s in hits2.items():
                hits.setdefault(fn, set()).update(s)
        return analyse(prop, hits, runs, jit_required, time.time() - t0, deadline)
    finally:
        _TL.root = REPO
        if keep:
            print('scratch kept:', scratch, file=sys.stderr)
        else:
            shutil.rmtree(scratch, ignore_errors=True)


def analyse(prop, hits, runs, jit_required, wall, deadline):
    pid = prop['id']
    anchor_files = [os.path.normpath(f) for f in prop['anchors']['files']]

    def hit_of(rel):
        return hits.get(os.path.realpath(os.path.join(root(), rel)), set())

    mechs = []
    files_seen = list(anchor_files)
    tot_exec = tot_hit = 0
    union = {}     # file -> set of executable lines inside any mechanism range (for the total)
    for m in prop['anchors']['mechanism']:
        for rel, ranges in parse_where(m['where'], anchor_files):
            if ranges is None:
                mechs.append({'name': m['name'], 'file': rel, 'range': None, 'error': 'file not found'})
                continue
            if rel not in files_seen:
                files_seen.append(rel)
            ex, src = executable_lines(rel)
            now, changed = map_ranges(rel, ranges)
            inr = sorted(ln for ln in ex if ln in now)
            h = hit_of(rel)
            missed = [ln for ln in inr if ln not in h]
            union.setdefault(rel, set()).update(inr)
            mechs.append({
                'name': m['name'], 'file': rel,
                'range': ','.join(f'{a}-{b}' for a, b in ranges),          # as anchored (base commit)
                'range_now': ','.join(runs_of(now)),                       # the same code in the working tree
                'changed_since_anchor': changed,
                'executable': len(inr), 'hit': len(inr) - len(missed),
                'missed_lines': missed,
                'missed_source': [f'{ln}: {src[ln - 1].strip()}' for ln in missed[:8]],
                # full text of every missed line as it was when measured (the working tree moves on)
                'missed_text': {str(ln): src[ln - 1].rstrip() for ln in missed},
            })
    for rel, s in union.items():
        tot_exec += len(s)
        tot_hit += len(s & hit_of(rel))
    files = []
    for rel in files_seen:
        ex, _ = executable_lines(rel)
        h = hit_of(rel)
        stray = sorted(h - ex)
        files.append({'file': rel, 'anchor_file': rel in anchor_files, 'sha1': file_sha1(rel),
                      'executable': len(ex),
                      'hit': len(ex & h), 'pct': round(100.0 * len(ex & h) / max(1, len(ex)), 1),
                      **({'hit_but_not_executable': stray} if stray else {})})
    last = runs[0]
    return {
        'property_id': pid,
        'command': f'VERIF_REPO=<snapshot of {REPO}/spatialpandas> '
                   f'VERIF_LINECOV=<scratch>/cov.json NUMBA_DISABLE_JIT=1 VERIF_OUT_DIR=<scratch>/out '
                   f'VERIF_DEADLINE={deadline} ./check {pid} --no-proof',
        'tier': 'quick',
        'anchor_base_commit': BASE,
        'repo_head': repo_head(),
        'measured_at': time.strftime('%Y-%m-%dT%H:%M:%SZ', time.gmtime()),
        'jit_required': jit_required,
        'finished': last['finished'] if not jit_required else runs[-1]['finished'],
        'cut_by_deadline': any(r['cut_by_deadline'] for r in runs),
        'wall_s': round(wall, 1),
        'runs': runs,
        'mechanism_lines': {'executable': tot_exec, 'hit': tot_hit,
                            'pct': round(100.0 * tot_hit / max(1, tot_exec), 1)},
        'mechanisms': mechs,
        'files': files,
        # every executed line under REPO/spatialpandas (runs), so that the figures can be recomputed
        # (--reanalyse) after properties.jsonl changes without repeating the run
        'executed': {os.path.relpath(fn, os.path.realpath(root())): ','.join(runs_of(lns))
                     for fn, lns in sorted(hits.items()) if lns},
    }


def reanalyse(prop, deadline):
    d = json.load(open(os.path.join(COVDIR, prop['id'] + '.json')))
    moved = [f['file'] for f in d['files'] if f.get('sha1') != file_sha1(f['file'])]
    if moved:
        print(f"{prop['id']}: not re-analysed, source changed since the run: {', '.join(moved)}", file=sys.stderr)
        return d
    hits = {}
    for rel, runs in d['executed'].items():
        s = hits.setdefault(os.path.realpath(os.path.join(root(), rel)), set())
        for r in runs.split(','):
            a, _, b = r.partition('-')
            s.update(range(int(a), int(b or a) + 1))
    m = re.search(r'VERIF_DEADLINE=(\d+)', d.get('command', ''))
    res = analyse(prop, hits, d['runs'], d['jit_required'], d['wall_s'], int(m.group(1)) if m else deadline)
    res['measured_at'] = d.get('measured_at')
    return res


# ----------------------------------------------------------------------
# SUMMARY.md
# ----------------------------------------------------------------------
def write_summary():
    props = load_properties()
    rows, details = [], []
    for pid in sorted(props):
        p = os.path.join(COVDIR, pid + '.json')
        if not os.path.exists(p):
            continue
        d = json.load(open(p))
        ml = d['mechanism_lines']
        af = [f for f in d['files'] if f['anchor_file']]
        fe, fh = sum(f['executable'] for f in af), sum(f['hit'] for f in af)
        state = 'finished' if d['finished'] else ('cut by deadline' if d['cut_by_deadline'] else 'not finished')
        if d['jit_required']:
            state += ' (JIT needed: merged with a JIT run)'
        cases = next((r['cases_compared'] for r in reversed(d['runs']) if r['cases_compared'] is not None), None)
        rows.append(f"| {pid} | {ml['executable']} | {ml['hit']} | {ml['pct']:.1f} | "
                    f"{100.0 * fh / max(1, fe):.1f} ({fh}/{fe}) | {cases} | {d['wall_s']:.0f} | {state} |")
        det = [f"### {pid} - {props[pid]['title']}", '']
        for r in d['runs']:
            if r['reported']:
                det.append(f"run `{r['tag']}` reported (ignored here): " + ' / '.join(x[:160] for x in r['reported'][:3]))
                det.append('')
        any_missed = False
        for m in d['mechanisms']:
            if m.get('error'):
                det.append(f"* **{m['name']}** `{m['file']}`: {m['error']}")
                continue
            if not m['missed_lines']:
                continue
            any_missed = True
            now = '' if m.get('range_now', m['range']) == m['range'] else f" (now {m['range_now']})"
            det.append(f"* **{m['name']}**  \n  `{m['file']}:{m['range']}`{now} - {m['hit']}/{m['executable']} hit, "
                       f"missed {', '.join(runs_of(m['missed_lines']))}")
            det.append('')
            det.append('  ```')
            txt = m.get('missed_text', {})
            for ln in m['missed_lines']:
                det.append(f"  {ln:5d}  {txt.get(str(ln), '?')}")
            det.append('  ```')
        if not any_missed:
            det.append('every executable line inside the mechanism ranges was executed.')
        det.append('')
        details.append('\n'.join(det))
    with open(os.path.join(COVDIR, 'SUMMARY.md'), 'w') as f:
        f.write('# Implementation line coverage of the correspondence runs\n\n'
                'Produced by `tools/impl_coverage.py` (quick tier, `--no-proof`, `NUMBA_DISABLE_JIT=1` so that the\n'
                'kernels run as Python and their lines are observable; `sys.monitoring` LINE events, see\n'
                '`tools/linecov.py`).  "mechanism lines" = executable lines (lines carrying bytecode) inside the\n'
                '`anchors.mechanism[].where` ranges of `properties.jsonl`; a line that is **not** hit is code whose\n'
                'change the correspondence run of that property could not notice.  "anchor files" = whole-file figure\n'
                'over `anchors.files`.  A run cut by the deadline under-reports (interpreted kernels are slow).\n'
                'The `where` ranges are line numbers of the commit the work started from (%s); they are\n'
                'translated to the working tree (which has since received `fix:` commits) with a line diff, shown as\n'
                '"now ...".  Line numbers of missed lines are those of the working tree.\n\n' % (BASE or 'unknown')[:10] +
                '| property | mechanism lines executable | hit | % hit | anchor files % (hit/executable) | cases compared | wall s | run |\n'
                '|---|---|---|---|---|---|---|---|\n')
        f.write('\n'.join(rows) + '\n\n## Missed lines inside mechanism ranges\n\n')
        f.write('\n'.join(details))


def main():
    ap = argparse.ArgumentParser()
    ap.add_argument('props', nargs='*')
    ap.add_argument('--deadline', type=int, default=900)
    ap.add_argument('--jobs', type=int, default=4)
    ap.add_argument('--cpus-per-job', type=int, default=0,
                    help='pin each run to this many cores (taskset); 0 = no pinning')
    ap.add_argument('--keep', action='store_true', help='keep the scratch directories (debug)')
    ap.add_argument('--summary-only', action='store_true')
    ap.add_argument('--reanalyse', action='store_true',
                    help='recompute the figures from the executed lines stored in coverage/Cxx.json')
    args = ap.parse_args()
    props = load_properties()
    want = [p.upper() for p in args.props] or sorted(props)
    os.makedirs(COVDIR, exist_ok=True)
    if args.reanalyse:
        for pid in want:
            if os.path.exists(os.path.join(COVDIR, pid + '.json')):
                res = reanalyse(props[pid], args.deadline)
                json.dump(res, open(os.path.join(COVDIR, pid + '.json'), 'w'), indent=1)
    elif not args.summary_only:
        ncpu = os.cpu_count() or 4
        slots = list(range(args.jobs))

        def job(pid):
            slot = slots.pop()
            try:
                cpus = None
                if args.cpus_per_job:
                    # slots are laid out from the top core downwards
                    hi = ncpu - slot * args.cpus_per_job
                    cpus = [c for c in range(hi - args.cpus_per_job, hi) if c >= 0]
                res = measure(props[pid], args.deadline, cpus, args.keep)
                json.dump(res, open(os.path.join(COVDIR, pid + '.json'), 'w'), indent=1)
                ml = res['mechanism_lines']
                print(f"{pid}: mechanism lines {ml['hit']}/{ml['executable']} ({ml['pct']}%), "
                      f"{'finished' if res['finished'] else 'cut/unfinished'}"
                      f"{', jit_required' if res['jit_required'] else ''}, {res['wall_s']:.0f}s", flush=True)
            finally:
                slots.append(slot)

        with cf.ThreadPoolExecutor(max_workers=args.jobs) as ex:
            futs = {ex.submit(job, pid): pid for pid in want}
            for fut in cf.as_completed(futs):
                try:
                    fut.result()
                except Exception as e:   # noqa: BLE001
                    print(f'{futs[fut]}: coverage run failed: {type(e).__name__}: {e}', file=sys.stderr, flush=True)
    write_summary()


if __name__ == '__main__':
    main()
