#!/usr/bin/env python3
"""print the prompt for a fresh seeding sub-agent for property <id> (only the property text + its worktree)"""
import json, sys
pid = sys.argv[1]
wt = f"/tmp/seed_{pid}"
p = next(json.loads(l) for l in open('/verif/properties.jsonl') if json.loads(l)['id'] == pid)
print(f"""You are testing how robust a Python library's guarantees are. The library is holoviz/spatialpandas (Pandas/Dask extension arrays for vector geometry: numba Hilbert R-tree, Hilbert-curve partitioning, intersection predicates, parquet I/O). Your private scratch copy is the git worktree `{wt}` (work ONLY there; never touch /repo or /verif, never read /verif). Run code with `cd {wt} && PYTHONPATH={wt} /venv/bin/python ...` (check `import spatialpandas; print(spatialpandas.__file__)` points into {wt}). The existing test suite: `cd {wt} && PYTHONPATH={wt} /venv/bin/python -m pytest -q -p no:cacheprovider --timeout=900 -x` (≈ 1 minute; a handful of tests fail even on the unmodified tree — record which before you change anything, only NEW failures count).

The property under study:

TITLE: {p['title']}
STATEMENT: {p['statement']}
QUANTIFIED OVER: {p['quantifier']['text']}
WHERE IT LIVES: files {', '.join(p['anchors']['files'])}; mechanisms: {'; '.join(m['name'] + ' @ ' + m['where'] for m in p['anchors']['mechanism'])}

Task: produce TWO different, realistic changes to the library's source (each a small patch such as a developer could plausibly introduce by mistake during a refactoring, optimisation or bug fix) that each BREAK this property while (a) the package still imports and (b) the existing test suite shows no new failure. Make them SUBTLE: each must need something specific to manifest — an unusual input (a tie, a touching configuration, a particular size / page size / partition count, an empty or missing element, a non-zero buffer offset, a particular ordering), a multi-step sequence of operations, a fault or crash at a particular point, a particular interleaving, or two cooperating sites that each look fine alone — not something ordinary use would expose at once. The two changes should be in different mechanisms/files where possible.

For each change i ∈ {{1,2}} write into `{wt}/_seed/{pid}_{{i}}/`: `patch.diff` (output of `git diff` for that change alone, applying cleanly to the unmodified worktree with `git apply`), `demo.py` (a small self-contained program that exits 0 and prints PASS on the unmodified code and exits 1 printing FAIL on the changed code, demonstrating the property violation through the public API), and `meta.json` with keys: property, title (one line), what_it_needs_to_manifest, files_touched, how_verified (the commands you ran and what you saw, incl. the test-suite result with the change applied). Never use `git stash` (the stash is shared between worktrees of one repository and other people use sibling worktrees): to set a change aside use `git diff > file; git checkout -- .; git apply file`. When running the test suite add `--ignore=_seed`. Work on one change at a time: apply, verify demo fails, run the suite, save `git diff`, then `git checkout -- .` and verify the demo passes again. Leave the worktree clean (no uncommitted source changes) at the end; the `_seed` directory stays. Final answer: a short summary of the two changes.""")
