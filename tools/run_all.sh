#!/bin/bash
# tools/run_all.sh [quick|thorough] : every check once on /repo, summary to build/run_all_<tier>.txt
tier=${1:-quick}
mkdir -p /verif/build
out=/verif/build/run_all_$tier.txt
: > $out
cd /verif
for i in $(seq -w 1 20); do
  p=C$i
  s=$(date +%s)
  ./check $p --tier $tier > /verif/build/last_$p.log 2>&1
  rc=$?
  e=$(( $(date +%s) - s ))
  echo "$p rc=$rc wall=${e}s $(grep -c '^KNOWN-FINDING' /verif/build/last_$p.log) known $(grep -c '^VIOLATION' /verif/build/last_$p.log) violations | $(tail -1 /verif/build/last_$p.log)" | tee -a $out
done
