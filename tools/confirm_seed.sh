#!/bin/bash
# tools/confirm_seed.sh <worktree> <seed-dir> <name>
# Confirms a seeded change myself: demo passes on the clean worktree, fails with the patch, the
# package imports and every stable_pass test of BASELINE.json still passes with the patch.
# On success copies it to /verif/seeded/<name>/ and appends the evidence to meta.json.
set -u
wt=$1; seed=$2; name=$3
cd "$wt" || exit 2
git checkout -q -- . 
export PYTHONPATH="$wt"
/venv/bin/python "$seed/demo.py" >/tmp/cs_clean_$name.txt 2>&1; clean_rc=$?
git apply "$seed/patch.diff" || { echo "APPLY FAILED"; exit 2; }
/venv/bin/python "$seed/demo.py" >/tmp/cs_patched_$name.txt 2>&1; patched_rc=$?
/venv/bin/python -c "import spatialpandas" ; imp_rc=$?
/venv/bin/python -m pytest -q -p no:cacheprovider --timeout=900 --ignore=_seed --ignore=_seed_r1 --ignore=_seed_r2 --junitxml=/tmp/cs_junit_$name.xml >/dev/null 2>&1
reg=$(CS_NAME=$name /venv/bin/python - <<'PY'
import json, os, xml.etree.ElementTree as ET
base=json.load(open('/root/.vp/BASELINE.json'))
passed=set()
for tc in ET.parse('/tmp/cs_junit_'+os.environ['CS_NAME']+'.xml').getroot().iter('testcase'):
    if not any(c.tag in ('failure','error','skipped') for c in tc):
        passed.add(f"{tc.get('classname')}::{tc.get('name')}")
print(len([t for t in base['stable_pass'] if t not in passed]))
PY
)
git checkout -q -- .
echo "clean_demo_rc=$clean_rc patched_demo_rc=$patched_rc import_rc=$imp_rc suite_regressions=$reg"
if [ "$clean_rc" = 0 ] && [ "$patched_rc" != 0 ] && [ "$imp_rc" = 0 ] && [ "$reg" = 0 ]; then
  mkdir -p /verif/seeded/$name
  cp "$seed/patch.diff" "$seed/demo.py" /verif/seeded/$name/
  /venv/bin/python - "$seed/meta.json" /verif/seeded/$name/meta.json "$clean_rc" "$patched_rc" "$reg" <<'PY'
import json, sys
src, dst, c, p, r = sys.argv[1:]
try: m = json.load(open(src))
except Exception: m = {}
m['confirmed_by_orchestrator'] = {'demo_rc_clean': int(c), 'demo_rc_patched': int(p), 'stable_pass_regressions_with_patch': int(r),
  'how': 'tools/confirm_seed.sh in the scratch worktree: demo on clean tree, git apply, demo, import, full suite vs BASELINE stable_pass, git checkout'}
json.dump(m, open(dst, 'w'), indent=1)
PY
  echo "CONFIRMED -> /verif/seeded/$name"
else
  echo "NOT CONFIRMED"; tail -3 /tmp/cs_clean_$name.txt /tmp/cs_patched_$name.txt
fi
